package checks

import (
	"encoding/json"
	"fmt"
	"strings"
	"testing"
	"time"

	"verifharness/h"

	"pgregory.net/rapid"
)

// C15: altering a table keeps the stored values of every field it retains.
//
// Model: a field identity is (name, expression). Its value for a (key, period)
// is the aggregate over the points that were processed while the identity was
// part of the table and that passed the WHERE in force when they were
// processed. Every alteration is issued at a quiescent point and followed by a
// barrier, so "processed while" is decided by the position in the history.

type C15Op struct {
	K      string       `json:"k"` // ins | flush | restart | alter | check
	P      *h.Point     `json:"p,omitempty"`
	Fields []h.FieldDef `json:"fields,omitempty"` // alter / restart: the new field list (nil on restart: unchanged)
	Where  *h.Pred      `json:"where,omitempty"`
	SetW   bool         `json:"set_where,omitempty"` // alter: replace the WHERE (by Where, possibly none)
	Sel    []string     `json:"sel,omitempty"`       // check: additional field-subset query
}

type C15Case struct {
	Table h.TableDef `json:"table"`
	Ops   []C15Op    `json:"ops"`
}

func c15Cfg() *h.GenCfg {
	return &h.GenCfg{MaxPoints: 40, MaxPeriods: 5, MaxTables: 1, MaxFields: 4, AllowWhere: true, AllowPct: true, AllowIf: true}
}

func genC15(t *rapid.T, excluded *int) C15Case {
	cfg := c15Cfg()
	cfg.Excluded = excluded
	s := h.GenSchema(t, cfg)
	c := C15Case{Table: s.Tables[0]}
	cur := append([]h.FieldDef(nil), c.Table.Fields...)
	ever := append([]h.FieldDef(nil), cur...) // every identity the case has used
	fresh := 0
	schemaNow := func() *h.Schema { return &h.Schema{Tables: []h.TableDef{c.Table}} }
	alter := func(label string) ([]h.FieldDef, bool) {
		next := append([]h.FieldDef(nil), cur...)
		changed := false
		// deletions
		if len(next) > 1 && rapid.IntRange(0, 2).Draw(t, label+".del") == 0 {
			k := rapid.IntRange(0, len(next)-1).Draw(t, label+".delidx")
			next = append(next[:k:k], next[k+1:]...)
			changed = true
		}
		// insertions of fresh identities at generated positions
		nadd := rapid.IntRange(0, 2).Draw(t, label+".nadd")
		for i := 0; i < nadd && len(next) < 7; i++ {
			var f h.FieldDef
			ok := false
			for tries := 0; tries < 6 && !ok; tries++ {
				fresh++
				f = h.FieldDef{Name: fmt.Sprintf("g%d", fresh), Ex: h.GenEx(t, cfg, 2, fmt.Sprintf("%s.add%d.%d", label, i, tries))}
				if rapid.IntRange(0, 4).Draw(t, fmt.Sprintf("%s.wide%d.%d", label, i, tries)) == 0 {
					// a wide field: its column is much wider than the others
					f.Ex = &h.Ex{Op: "PCT", F: rapid.SampledFrom(h.ValNames).Draw(t, fmt.Sprintf("%s.pf%d.%d", label, i, tries)), Pct: 90, Lo: 0, Hi: 100, Prec: 1}
				}
				if !h.FieldsCollide(append(append([]h.FieldDef(nil), ever...), f)) {
					ok = true
				} else {
					*excluded++
				}
			}
			if !ok {
				continue
			}
			// a name that an earlier (or just removed) field used, now with
			// another expression: identity is name + expression, so this is a
			// new field that starts empty, not the old one continued
			var free []string
			for _, e := range ever {
				taken := false
				for _, x := range next {
					taken = taken || x.Name == e.Name
				}
				for _, x := range free {
					taken = taken || x == e.Name
				}
				if !taken {
					free = append(free, e.Name)
				}
			}
			if len(free) > 0 && rapid.IntRange(0, 2).Draw(t, fmt.Sprintf("%s.reuse%d", label, i)) == 0 {
				f.Name = rapid.SampledFrom(free).Draw(t, fmt.Sprintf("%s.reusename%d", label, i))
			}
			ever = append(ever, f)
			pos := rapid.IntRange(0, len(next)).Draw(t, fmt.Sprintf("%s.pos%d", label, i))
			next = append(next[:pos:pos], append([]h.FieldDef{f}, next[pos:]...)...)
			changed = true
		}
		// permutation
		if len(next) > 1 && rapid.IntRange(0, 1).Draw(t, label+".perm") == 0 {
			perm := rapid.Permutation(next).Draw(t, label+".order")
			for i := range perm {
				if perm[i].Name != next[i].Name {
					changed = true
				}
			}
			next = perm
		}
		return next, changed
	}
	n := rapid.IntRange(3, cfg.MaxPoints).Draw(t, "nops")
	alters, restarts := 0, 0
	for i := 0; i < n; i++ {
		label := fmt.Sprintf("op%d", i)
		switch k := rapid.IntRange(0, 15).Draw(t, label); {
		case k <= 7:
			p := h.GenPoint(t, cfg, schemaNow(), cfg.MaxPeriods, label)
			c.Ops = append(c.Ops, C15Op{K: "ins", P: &p})
		case k <= 9:
			c.Ops = append(c.Ops, C15Op{K: "flush"})
		case k == 10 && restarts < 4:
			restarts++
			op := C15Op{K: "restart"}
			if alters < 6 && rapid.Bool().Draw(t, label+".withalter") {
				if next, changed := alter(label); changed {
					op.Fields, cur = next, next
					alters++
				}
			}
			c.Ops = append(c.Ops, op)
		case (k == 11 || k == 12) && alters < 6:
			op := C15Op{K: "alter"}
			next, changed := alter(label)
			if changed {
				op.Fields, cur = next, next
			} else {
				op.Fields = cur
			}
			if rapid.IntRange(0, 2).Draw(t, label+".where") == 0 {
				op.SetW = true
				if rapid.IntRange(0, 3).Draw(t, label+".wnone") > 0 {
					op.Where = h.GenPred(t, 1, label+".w")
				}
				changed = true
			}
			if changed {
				alters++
				c.Ops = append(c.Ops, op)
			}
		default:
			op := C15Op{K: "check"}
			if rapid.Bool().Draw(t, label+".subset") {
				names := make([]string, len(cur))
				for j, f := range cur {
					names[j] = f.Name
				}
				perm := rapid.Permutation(names).Draw(t, label+".selperm")
				op.Sel = append([]string{"_points"}, perm[:rapid.IntRange(1, len(perm)).Draw(t, label+".nsel")]...)
			}
			c.Ops = append(c.Ops, op)
		}
	}
	c.Ops = append(c.Ops, C15Op{K: "flush"}, C15Op{K: "check"}, C15Op{K: "restart"}, C15Op{K: "check"})
	return c
}

type c15Point struct {
	sp  h.SubPoint
	idx int
}

func runC15(c *C15Case) ([]string, error) {
	labels := map[string]bool{}
	tbl := c.Table
	tbl.Fields = append([]h.FieldDef(nil), c.Table.Fields...)
	schema := func() *h.Schema { return &h.Schema{Tables: []h.TableDef{tbl}} }
	dir := h.ScratchDir("c15")
	defer removeAll(dir)
	marker := new(int64)
	db, err := h.OpenDB(dir, schema(), h.DBConf{}, marker)
	if err != nil {
		return nil, fmt.Errorf("%w: open: %v", errSetup, err)
	}
	defer func() { db.Close() }()
	since := map[string]int{} // identity (name|expr) -> number of points processed before it joined
	ident := func(f h.FieldDef) string { return f.Name + "|" + f.Ex.SQL() }
	for _, f := range tbl.Fields {
		since[ident(f)] = 0
	}
	var stored []c15Point // accepted sub-points in processing order
	processed := 0
	var hi int64
	sinceAlter, flushedSinceAlter, restartedSinceAlter := false, false, false
	var lastKeyPeriods map[string]bool
	applyFields := func(next []h.FieldDef) {
		cur := map[string]bool{}
		for _, f := range next {
			cur[ident(f)] = true
			if _, ok := since[ident(f)]; !ok {
				for id := range since {
					if strings.HasPrefix(id, f.Name+"|") {
						labels["name-reused-with-new-expression"] = true
					}
				}
				since[ident(f)] = processed
			}
		}
		tbl.Fields = append([]h.FieldDef(nil), next...)
	}
	sem := func() *h.TableSem { return h.SemFor(schema(), "ta") }
	history := func(i int) string {
		desc := ""
		for j := 0; j <= i && j < len(c.Ops); j++ {
			op := c.Ops[j]
			switch op.K {
			case "ins":
				desc += "i"
			case "flush":
				desc += " F "
			case "restart":
				if op.Fields != nil {
					desc += " R* "
				} else {
					desc += " R "
				}
			case "alter":
				desc += " A "
			case "check":
				desc += "?"
			}
		}
		return fmt.Sprintf("\nhistory up to op %d (i=insert F=flush R=restart R*=restart with new definition A=alter ?=check): %s\ncurrent definition: %s", i, desc, tbl.SQL())
	}
	check := func(i int, sel []string, mem bool) error {
		q := "SELECT * FROM ta"
		var names []string
		if sel != nil {
			q = "SELECT " + joinNames(sel) + " FROM ta"
			names = sel
		}
		got, err := db.Query(q, h.QueryOpts{Mem: mem})
		if err != nil {
			if h.IsInconclusive(err) {
				return err
			}
			return fmt.Errorf("%s failed: %v%s", q, err, history(i))
		}
		// expected rows: one per (key, period) that ever received an accepted point
		s := sem()
		type gk struct {
			key string
			ts  int64
		}
		groups := map[gk][]c15Point{}
		for _, p := range stored {
			k := gk{h.KeyOf(s.Def, p.sp.Dims), h.PeriodEnd(p.sp.TS, s.Def.ResNS)}
			groups[k] = append(groups[k], p)
		}
		fm := map[string]*h.Ex{}
		for _, f := range tbl.Fields {
			fm[f.Name] = f.Ex
		}
		var want []h.RefRow
		for k, g := range groups {
			row := h.RefRow{TS: k.ts, Key: k.key, Vals: map[string]float64{"_points": float64(len(g))}}
			for _, f := range tbl.Fields {
				var sub []h.SubPoint
				for _, p := range g {
					if p.idx >= since[ident(f)] {
						sub = append(sub, p.sp)
					}
				}
				v, ok := h.EvalEx(f.Ex, sub, fm)
				if !ok {
					v = 0
				}
				row.Vals[f.Name] = v
			}
			want = append(want, row)
		}
		if names == nil {
			names = append([]string{"_points"}, tableFieldNames(schema(), "ta")...)
		}
		if d := h.DiffRows(want, got.Rows, names); d != "" {
			return fmt.Errorf("%s (memstore=%v) does not show what the retained / added fields must hold: %s%s", q, mem, d, history(i))
		}
		return nil
	}
	_ = lastKeyPeriods
	for i, op := range c.Ops {
		switch op.K {
		case "ins":
			if err := db.Insert("inbound", *op.P); err != nil {
				return nil, fmt.Errorf("insert: %v", err)
			}
			if op.P.TS > hi {
				hi = op.P.TS
			}
			s := sem()
			for _, sp := range h.SubPointsOf(*op.P, false) {
				if s.Accepts(sp.Dims) {
					stored = append(stored, c15Point{sp, processed})
				}
			}
			processed++
			if sinceAlter {
				labels["point-after-alter"] = true
			}
		case "flush":
			if err := db.Quiesce(); err != nil {
				return sortedLabels(labels), err
			}
			db.Flush()
			if sinceAlter {
				flushedSinceAlter = true
			}
		case "restart":
			if err := db.Quiesce(); err != nil {
				return sortedLabels(labels), err
			}
			db.Close()
			if op.Fields != nil {
				applyFields(op.Fields)
				sinceAlter = true
				labels["definition-changed-at-restart"] = true
			}
			db, err = h.OpenDB(dir, schema(), h.DBConf{}, marker)
			if err != nil {
				return sortedLabels(labels), fmt.Errorf("reopen failed: %v%s", err, history(i))
			}
			if hi > 0 {
				db.Z.VerifAdvanceClock(time.Unix(0, hi))
			}
			if sinceAlter {
				restartedSinceAlter = true
			}
		case "alter":
			if err := db.Quiesce(); err != nil {
				return sortedLabels(labels), err
			}
			applyFields(op.Fields)
			if op.SetW {
				tbl.Where = op.Where
				labels["where-changed"] = true
			}
			if err := db.Apply(schema()); err != nil {
				if h.IsInconclusive(err) {
					return sortedLabels(labels), err
				}
				return sortedLabels(labels), fmt.Errorf("ApplySchema failed: %v%s", err, history(i))
			}
			sinceAlter = true
			labels["live-alter"] = true
		case "check":
			if err := db.Quiesce(); err != nil {
				return sortedLabels(labels), err
			}
			if err := check(i, nil, true); err != nil {
				return sortedLabels(labels), err
			}
			if op.Sel != nil {
				// the subset was drawn from the definition current at generation time
				ok := true
				cur := map[string]bool{"_points": true}
				for _, f := range tbl.Fields {
					cur[f.Name] = true
				}
				for _, n := range op.Sel {
					ok = ok && cur[n]
				}
				if ok {
					if err := check(i, op.Sel, true); err != nil {
						return sortedLabels(labels), err
					}
				}
			}
			if i > 0 && c.Ops[i-1].K == "flush" {
				if err := check(i, nil, false); err != nil {
					return sortedLabels(labels), err
				}
			}
		}
	}
	if sinceAlter && (flushedSinceAlter || restartedSinceAlter) {
		labels["flush-or-restart-after-alter"] = true
	}
	return sortedLabels(labels), nil
}

func joinNames(names []string) string {
	out := ""
	for i, n := range names {
		if i > 0 {
			out += ", "
		}
		out += n
	}
	return out
}

func TestC15(t *testing.T) {
	rec := h.NewRec(t, "TestC15")
	excluded := 0
	defer func() { rec.Excluded(excluded) }()
	rapid.Check(t, func(rt *rapid.T) {
		c := genC15(rt, &excluded)
		labels, err := runC15(&c)
		nt := has(labels, "point-after-alter") && has(labels, "flush-or-restart-after-alter")
		if outcome(rec, rt, &c, nt, labels, err) {
			rt.Fatalf("%v", err)
		}
	})
}

func init() {
	register("TestC15", func(raw json.RawMessage) error {
		var c C15Case
		if err := json.Unmarshal(raw, &c); err != nil {
			return err
		}
		_, err := runC15(&c)
		return err
	})
}
