package checks

import (
	"encoding/json"
	"fmt"
	"os"
	"regexp"
	"runtime/debug"
	"strings"
	"sync"
	"testing"
	"time"

	"verifharness/h"

	"pgregory.net/rapid"
)

// C16SQLCase is one submitted statement.
type C16SQLCase struct {
	SQL string `json:"sql"`
}

var (
	c16Once    sync.Once
	c16DB      *h.DB
	c16Leader  *h.PlanLeader
	c16Schema  h.Schema
	c16InitErr error
)

func c16Fixture() error {
	c16Once.Do(func() {
		c16Schema = h.Schema{Tables: []h.TableDef{
			{Name: "ta", Stream: "inbound", Fields: []h.FieldDef{{Name: "fa", Ex: &h.Ex{Op: "SUM", F: "va"}}, {Name: "fb", Ex: &h.Ex{Op: "AVG", F: "vb"}}, {Name: "fp", Ex: &h.Ex{Op: "PCT", F: "vc", Pct: 50, Lo: 0, Hi: 100, Prec: 0}}},
				GroupBy: []string{"da", "db", "dc"}, ResNS: 1e9, RetNS: 3600e9, PartBy: []string{"da"}},
			{Name: "tb", Stream: "inbound", Fields: []h.FieldDef{{Name: "fa", Ex: &h.Ex{Op: "MAX", F: "va"}}}, GroupAll: true, ResNS: 5e9, RetNS: 3600e9},
		}}
		dir := h.ScratchDir("c16")
		c16DB, c16InitErr = h.OpenDB(dir, &c16Schema, h.DBConf{}, nil)
		if c16InitErr != nil {
			return
		}
		c16Leader, c16InitErr = h.OpenPlanLeader(h.ScratchDir("c16l"), &c16Schema, 2)
	})
	return c16InitErr
}

var hostileTokens = []string{
	"DELETE", "INSERT", "INTO", "VALUES", "UPDATE", "SET", "UNION", "ALL", "SHOW", "TABLES", "CREATE", "TABLE", "DROP", "ALTER", "EXPLAIN", "DESCRIBE",
	"SELECT", "FROM", "WHERE", "GROUP", "BY", "HAVING", "ORDER", "LIMIT", "ASOF", "UNTIL", "AS", "AND", "OR", "NOT", "IN", "LIKE", "IS", "NULL", "BETWEEN", "EXISTS", "CASE", "WHEN", "THEN", "END", "JOIN", "ON", "DISTINCT", "DESC", "ASC",
	"(", ")", ",", "*", "'", "''", "`fa`", "`da`", ";", "=", "<>", "<", ">", "+", "-", "/", "%", ".", "_", "1", "0", "-1", "1.5", "1e999", "99999999999999999999", "'-1h'", "'1s'", "'x'", "'2020-01-01T00:00:00Z'", "TRUE", "FALSE",
	"IF", "BOUNDED", "PERCENTILE", "SHIFT", "CROSSHIFT", "CROSSTAB", "CROSSTABT", "SUM", "AVG", "WAVG", "MIN", "MAX", "COUNT", "LN", "LOG2", "LOG10",
	"LUA", "CONCAT", "SPLIT", "SUBSTR", "REPLACEALL", "ANY", "ARRAY", "DECODE", "LEN", "RAND", "CITY", "ISP", "HGET", "SISMEMBER", "PLUA", "PHGET", "period", "stride", "fa", "fb", "fp", "da", "db", "_points", "_having", "_crosstab", "ta", "tb", "nosuch",
}

var baseStatements = []string{
	"SELECT * FROM ta",
	"SELECT fa, fb, _points FROM ta WHERE da = 'x' AND db IN (1, 2) GROUP BY da, period(2s) HAVING fa > 1 ORDER BY fa DESC LIMIT 1, 5",
	"SELECT SUM(fa) AS s, AVG(fb) AS a, fa / fb AS r FROM ta ASOF '-1h' UNTIL '-1s' GROUP BY CONCAT('_', da, dc) AS k, CROSSTABT(dc), period(5s), stride(10s)",
	"SELECT IF(da = 'x', fa) AS i, BOUNDED(fa, 0, 10) AS b, PERCENTILE(fp, 99) AS p, PERCENTILE(fa, 50, 0, 100, 1) AS p2, SHIFT(fa, '-2s') AS sh, CROSSHIFT(fb, '-10s', '5s'), LN(fa) AS l FROM ta GROUP BY _",
	"SELECT fa FROM ta WHERE da IN (SELECT da FROM ta WHERE db > 1 HAVING fa > 0) AND dc LIKE 'p%' OR NOT (db IS NULL)",
	"SELECT s, * FROM (SELECT fa AS s, * FROM ta GROUP BY da, db) GROUP BY da HAVING s <> 0 ORDER BY _time, da",
	"SELECT * FROM tb WHERE SPLIT(da, ',', 1) = 'x' AND SUBSTR(dc, 0, 1) <> 'q' AND LEN(da) > 1 AND ANY(da, dc) = 'p' AND RAND() < 0.5",
	"SELECT _ FROM ta GROUP BY SUBSTR(da, 0, 1) AS p, REPLACEALL(dc, 'p', 'q') AS r",
	"SELECT * FROM ta WHERE LUA('script', ARRAY(da), ARRAY(db, dc)) = 'x' AND HGET('h', da) = 'y' AND SISMEMBER('s', dc)",
	"SELECT -- force_fresh\n * FROM ta",
	"SELECT IF(da IN (SELECT da FROM tb WHERE dc = 'p'), fa) AS i, fb FROM ta WHERE db NOT IN (1, 2) AND dc IN (SELECT dc FROM ta GROUP BY dc HAVING fa > 1) GROUP BY LEN(da) AS n, period(10s) ORDER BY i DESC LIMIT 3",
}

var tokenRe = regexp.MustCompile(`'[^']*'|[A-Za-z_][A-Za-z_0-9]*|[0-9.]+|<>|<=|>=|!=|\S`)

func genC16SQL(t *rapid.T) C16SQLCase {
	var base string
	if rapid.IntRange(0, 2).Draw(t, "src") == 0 {
		tbl := rapid.SampledFrom([]string{"ta", "tb"}).Draw(t, "tbl")
		base = h.GenQuery(t, h.FullQ(4), &c16Schema, tbl, "q").SQL()
	} else {
		base = rapid.SampledFrom(baseStatements).Draw(t, "base")
	}
	toks := tokenRe.FindAllString(base, -1)
	n := rapid.IntRange(0, 4).Draw(t, "nmut")
	for i := 0; i < n && len(toks) > 0; i++ {
		pos := rapid.IntRange(0, len(toks)-1).Draw(t, fmt.Sprintf("pos%d", i))
		switch rapid.IntRange(0, 11).Draw(t, fmt.Sprintf("mut%d", i)) {
		case 9: // turn a parenthesised SELECT (or the whole statement) into a set operation
			op := rapid.SampledFrom([]string{"UNION", "UNION ALL", "INTERSECT", "EXCEPT", "MINUS"}).Draw(t, fmt.Sprintf("setop%d", i))
			var spans [][2]int
			for j := 0; j+1 < len(toks); j++ {
				if toks[j] == "(" && strings.EqualFold(toks[j+1], "SELECT") {
					k, depth := j+1, 0
					for k < len(toks) && !(depth == 0 && toks[k] == ")") {
						if toks[k] == "(" {
							depth++
						} else if toks[k] == ")" {
							depth--
						}
						k++
					}
					spans = append(spans, [2]int{j + 1, k})
				}
			}
			if len(spans) == 0 {
				toks = append(append(append([]string(nil), toks...), op), toks...)
			} else {
				sp := spans[rapid.IntRange(0, len(spans)-1).Draw(t, fmt.Sprintf("span%d", i))]
				inner := append([]string(nil), toks[sp[0]:sp[1]]...)
				repl := append(append(append([]string(nil), inner...), op), inner...)
				toks = append(append(append([]string(nil), toks[:sp[0]]...), repl...), toks[sp[1]:]...)
			}
		case 10: // put a subquery where a value is expected
			sub := rapid.SampledFrom([]string{"( SELECT da FROM ta )", "( SELECT fa FROM ta GROUP BY da )", "( SELECT * FROM tb LIMIT 1 )"}).Draw(t, fmt.Sprintf("sub%d", i))
			toks[pos] = sub
		case 11: // wrap a token in a function call
			fn := rapid.SampledFrom([]string{"SUM", "AVG", "IF", "BOUNDED", "PERCENTILE", "SHIFT", "CROSSHIFT", "LN", "CONCAT", "SUBSTR", "SPLIT", "LEN", "ANY", "ARRAY", "LUA", "CROSSTAB", "period", "stride"}).Draw(t, fmt.Sprintf("fn%d", i))
			toks[pos] = fn + " ( " + toks[pos] + " )"
		case 6: // drop one argument of a call: "," and what follows up to the next "," or ")"
			var commas []int
			for j, tk := range toks {
				if tk == "," {
					commas = append(commas, j)
				}
			}
			if len(commas) > 0 {
				j := commas[rapid.IntRange(0, len(commas)-1).Draw(t, fmt.Sprintf("comma%d", i))]
				k, depth := j+1, 0
				for k < len(toks) && !(depth == 0 && (toks[k] == "," || toks[k] == ")")) {
					if toks[k] == "(" {
						depth++
					} else if toks[k] == ")" {
						depth--
					}
					k++
				}
				toks = append(toks[:j], toks[k:]...)
			}
		case 7: // empty an argument list
			var opens []int
			for j, tk := range toks {
				if tk == "(" {
					opens = append(opens, j)
				}
			}
			if len(opens) > 0 {
				j := opens[rapid.IntRange(0, len(opens)-1).Draw(t, fmt.Sprintf("open%d", i))]
				k, depth := j+1, 0
				for k < len(toks) && !(depth == 0 && toks[k] == ")") {
					if toks[k] == "(" {
						depth++
					} else if toks[k] == ")" {
						depth--
					}
					k++
				}
				toks = append(toks[:j+1], toks[k:]...)
			}
		case 8: // duplicate an argument
			var commas []int
			for j, tk := range toks {
				if tk == "," {
					commas = append(commas, j)
				}
			}
			if len(commas) > 0 {
				j := commas[rapid.IntRange(0, len(commas)-1).Draw(t, fmt.Sprintf("comma%d", i))]
				k, depth := j+1, 0
				for k < len(toks) && !(depth == 0 && (toks[k] == "," || toks[k] == ")")) {
					if toks[k] == "(" {
						depth++
					} else if toks[k] == ")" {
						depth--
					}
					k++
				}
				dup := append([]string(nil), toks[j:k]...)
				toks = append(toks[:k], append(dup, toks[k:]...)...)
			}
		case 0: // delete
			toks = append(toks[:pos], toks[pos+1:]...)
		case 1: // duplicate
			toks = append(toks[:pos+1], toks[pos:]...)
		case 2: // swap with next
			if pos+1 < len(toks) {
				toks[pos], toks[pos+1] = toks[pos+1], toks[pos]
			}
		case 3, 4: // replace
			toks[pos] = rapid.SampledFrom(hostileTokens).Draw(t, fmt.Sprintf("tok%d", i))
		default: // insert
			tok := rapid.SampledFrom(hostileTokens).Draw(t, fmt.Sprintf("tok%d", i))
			toks = append(toks[:pos], append([]string{tok}, toks[pos:]...)...)
		}
	}
	if rapid.IntRange(0, 9).Draw(t, "trunc") == 0 && len(toks) > 1 {
		toks = toks[:rapid.IntRange(1, len(toks)-1).Draw(t, "cut")]
	}
	return C16SQLCase{SQL: strings.Join(toks, " ")}
}

var frameRe = regexp.MustCompile(`(?m)^(github\.com/getlantern/[^\s(]+)`)

// planNoPanic submits the statement to the standalone database and to a
// passthrough leader (cluster planning); a panic is a violation, an error or a
// plan is fine.
func planNoPanic(sql string) (err error) {
	for _, target := range []string{"standalone", "leader"} {
		func() {
			defer func() {
				if p := recover(); p != nil {
					stack := string(debug.Stack())
					frame := "?"
					for _, m := range frameRe.FindAllString(stack, -1) {
						if !strings.Contains(m, "verifharness") {
							frame = m
							break
						}
					}
					err = &sigErr{sig: panicSig(frame), msg: fmt.Sprintf("PANIC while parsing/planning on %s: %v\nfirst frame: %s\nstatement: %s", target, p, frame, sql)}
				}
			}()
			if target == "standalone" {
				c16DB.Z.Query(sql, false, nil, true)
			} else {
				c16Leader.Z.Query(sql, false, nil, true)
			}
		}()
		if err != nil {
			return err
		}
	}
	return nil
}

// panicSig maps the first zenodb/dependency frame of a panic to a finding signature.
func panicSig(frame string) string {
	switch {
	case strings.Contains(frame, "/goexpr."):
		return "goexpr-plan-time-panic"
	}
	return ""
}

func runC16SQL(c *C16SQLCase) error {
	if err := c16Fixture(); err != nil {
		return fmt.Errorf("%w: %v", errSetup, err)
	}
	if f := os.Getenv("VERIF_C16_TRACE"); f != "" {
		os.WriteFile(f, []byte(c.SQL), 0644)
	}
	return planNoPanic(c.SQL)
}

func TestC16SQL(t *testing.T) {
	rec := h.NewRec(t, "TestC16SQL")
	if err := c16Fixture(); err != nil {
		t.Fatalf("fixture: %v", err)
	}
	probesC16(rec)
	valid := map[string]bool{}
	for _, b := range baseStatements {
		valid[strings.Join(tokenRe.FindAllString(b, -1), " ")] = true
	}
	rapid.Check(t, func(rt *rapid.T) {
		c := genC16SQL(rt)
		labels := []string{"rejected"}
		func() {
			defer func() { recover() }()
			if _, perr := c16DB.Z.Query(c.SQL, false, nil, true); perr == nil {
				labels = []string{"planned"}
			}
		}()
		first := strings.ToUpper(strings.SplitN(c.SQL+" ", " ", 2)[0])
		if first != "SELECT" {
			labels = append(labels, "non-select")
		}
		err := runC16SQL(&c)
		if outcome(rec, rt, &c, !valid[c.SQL], labels, err) {
			rt.Fatalf("%v", err)
		}
	})
}

// probesC16: an unterminated back-quoted identifier makes the dependency's
// tokenizer loop forever while allocating; probed in a child process with a
// memory cap so that the runaway parse cannot hurt the shard.
func probesC16(rec *h.Rec) {
	stmt := "SELECT `fa FROM ta"
	probe(rec, "TestC16SQL", "sqlparser-unterminated-backtick", "a statement with an unterminated back-quoted identifier (SELECT `fa FROM ta) never returns from sql.Parse: the dependency github.com/getlantern/sqlparser's tokenizer loops at end of input and allocates until the process dies", C16SQLCase{SQL: stmt}, func() error {
		out, timedOut, _ := runChild("TestC16ChildParse", []string{"VERIF_CHILD_SQL=" + stmt}, 20*time.Second, 1500000)
		if strings.Contains(out, "CHILD-PARSE-RETURNED") {
			return nil
		}
		return fmt.Errorf("sql.Parse did not return (timed out: %v): %s", timedOut, lastLines(out, 3))
	})
}

func lastLines(s string, n int) string {
	lines := strings.Split(strings.TrimSpace(s), "\n")
	if len(lines) > n {
		lines = lines[:n]
	}
	return strings.Join(lines, " | ")
}

func init() {
	register("TestC16SQL", func(raw json.RawMessage) error {
		var c C16SQLCase
		if err := json.Unmarshal(raw, &c); err != nil {
			return err
		}
		return runC16SQL(&c)
	})
}

// FuzzC16SQL is the coverage-guided byte-level campaign (thorough tier): the
// corpus is seeded with valid statements and hostile constants. Statements
// with an odd number of back quotes, an empty back-quoted identifier, or back
// quotes next to string literals / comments are skipped (listed finding sqlparser-unterminated-backtick: the parser never
// returns for them).
func FuzzC16SQL(f *testing.F) {
	if err := c16Fixture(); err != nil {
		f.Fatalf("fixture: %v", err)
	}
	for _, s := range baseStatements {
		f.Add(s)
	}
	for _, s := range []string{"DELETE FROM ta", "INSERT INTO ta (a) VALUES (1)", "SELECT a FROM ta UNION SELECT b FROM tb", "SHOW TABLES", "SET a = 1", "SELECT * FROM ta GROUP BY CONCAT() AS c", "SELECT PERCENTILE(fa, 1, 2, 3) AS p FROM ta", "SELECT * FROM ta WHERE LUA('s', da, db) = 1", "SELECT CROSSHIFT(fa, '1s', '0s') FROM ta", "SELECT * FROM ta LIMIT 'x'", "SELECT * FROM ta ASOF 'zz' UNTIL ''", "SELECT IF(*, fa) AS i FROM ta"} {
		f.Add(s)
	}
	f.Fuzz(func(t *testing.T, s string) {
		if strings.Count(s, "`")%2 == 1 || strings.Contains(s, "``") || len(s) > 2000 {
			t.Skip()
		}
		// a back quote inside a string literal or comment does not pair with one
		// outside it (SELECT T(A,'`,1s'`,'')FROM t): whether the back quotes of such
		// a statement are balanced for the tokenizer cannot be told without
		// re-implementing its quoting rules, so these are skipped as well
		if strings.Contains(s, "`") && strings.ContainsAny(s, "'\"\\#") || strings.Contains(s, "`") && (strings.Contains(s, "--") || strings.Contains(s, "/*")) {
			t.Skip()
		}
		if err := planNoPanic(s); err != nil {
			t.Fatalf("%v", err)
		}
	})
}
