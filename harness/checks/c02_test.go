package checks

import (
	"bufio"
	"encoding/json"
	"fmt"
	"os"
	"os/exec"
	"path/filepath"
	"sort"
	"strconv"
	"strings"
	"sync"
	"syscall"
	"testing"
	"time"

	"verifharness/h"

	"github.com/getlantern/zenodb"
	"pgregory.net/rapid"
)

// C02: crash recovery applies every acknowledged insert exactly once.
//
// The database runs in a child process (this test binary re-executed) that
// executes one round of a generated script on the case's data directory and
// reports "TRY i" / "ACK i" around every DB.Insert. The round ends by a clean
// Close, by a named crash point (VERIF_CRASH_AT=name:n, the verif hooks make the
// process SIGKILL itself at the n-th hit) or by an asynchronous SIGKILL from the
// parent a generated delay after a chosen acknowledgement. After the last round
// the parent opens the directory itself (one more restart) and compares every
// table with the reference aggregation of the acknowledged points plus any
// subset of the points that were in flight when a round was killed.

type C02Op struct {
	K    string   `json:"k"` // ins | flush | sleep
	P    *h.Point `json:"p,omitempty"`
	MS   int      `json:"ms,omitempty"`
	Wait bool     `json:"wait,omitempty"` // flush: wait for ingestion to catch up first
}

type C02Round struct {
	Ops      []C02Op `json:"ops"`
	Kill     string  `json:"kill"` // none | point | async (armed by an ACK) | asynctry (armed by a TRY: lands inside Insert)
	Point    string  `json:"point,omitempty"`
	N        int     `json:"n,omitempty"`
	AfterAck int     `json:"after_ack,omitempty"` // async: index (within the round) of the insert whose ACK arms the kill
	DelayUS  int     `json:"delay_us,omitempty"`
	// Pause holds the goroutine that reaches the named point for the n-th time
	// for PauseMS (VERIF_PAUSE_AT), so that the script's next operations (a
	// flush, typically) land exactly there
	Pause   string `json:"pause,omitempty"`
	PauseN  int    `json:"pause_n,omitempty"`
	PauseMS int    `json:"pause_ms,omitempty"`
}

type C02Case struct {
	Schema   h.Schema   `json:"schema"`
	Rounds   []C02Round `json:"rounds"`
	RemoveMS int        `json:"remove_ms,omitempty"` // period of old-file removal (default 10 s, i.e. never within a round)
}

var c02Points = []string{
	"insert.wal.before", "insert.wal.after", "table.entry.done", "insert.subvalue", "rs.insert.recv", "rs.insert.applied",
	"flush.start", "flush.written", "flush.synced", "flush.closed", "flush.renamed", "flush.swapped",
	"offsets.written", "offsets.synced", "offsets.renamed", "remove.before", "remove.after",
}

func c02Cfg() *h.GenCfg {
	return &h.GenCfg{MaxPoints: 30, MaxPeriods: 4, MaxTables: 2, MaxFields: 3, AllowWhere: true, AllowTimer: true, AllowArrays: true, AdditiveOnly: true}
}

func genC02Round(t *rapid.T, cfg *h.GenCfg, s *h.Schema, label string) C02Round {
	var r C02Round
	n := rapid.IntRange(1, 14).Draw(t, label+".n")
	nins := 0
	for i := 0; i < n; i++ {
		l := fmt.Sprintf("%s.op%d", label, i)
		switch rapid.IntRange(0, 9).Draw(t, l) {
		case 0, 1:
			r.Ops = append(r.Ops, C02Op{K: "flush", Wait: rapid.Bool().Draw(t, l+".wait")})
		case 2:
			r.Ops = append(r.Ops, C02Op{K: "sleep", MS: rapid.IntRange(1, 12).Draw(t, l+".ms")})
		default:
			p := h.GenPoint(t, cfg, s, cfg.MaxPeriods, l)
			r.Ops = append(r.Ops, C02Op{K: "ins", P: &p})
			nins++
		}
	}
	if rapid.IntRange(0, 3).Draw(t, label+".pause") == 0 {
		// any instrumented step can be held open: the row-store / table steps let a
		// flush land inside an insert, the flush / offset steps let inserts, further
		// flushes and old-file removal land inside a flush
		r.Pause = rapid.SampledFrom(append([]string{"insert.subvalue", "rs.insert.applied", "flush.renamed", "flush.renamed", "flush.written"}, c02Points...)).Draw(t, label+".pausept")
		r.PauseN = rapid.IntRange(1, 4).Draw(t, label+".pausen")
		r.PauseMS = rapid.SampledFrom([]int{20, 60, 120}).Draw(t, label+".pausems")
	}
	switch k := rapid.IntRange(0, 9).Draw(t, label+".kill"); {
	case k <= 1:
		r.Kill = "none"
	case k <= 7 || nins == 0:
		r.Kill = "point"
		r.Point = rapid.SampledFrom(c02Points).Draw(t, label+".point")
		r.N = rapid.IntRange(1, 6).Draw(t, label+".pn")
	default:
		r.Kill = "async"
		if rapid.Bool().Draw(t, label+".ontry") {
			r.Kill = "asynctry"
		}
		r.AfterAck = rapid.IntRange(0, nins-1).Draw(t, label+".after")
		r.DelayUS = rapid.SampledFrom([]int{0, 50, 200, 1000, 3000, 8000}).Draw(t, label+".delay")
		if r.Kill == "asynctry" {
			r.DelayUS = rapid.SampledFrom([]int{0, 0, 20, 100}).Draw(t, label+".trydelay")
		}
	}
	return r
}

func genC02(t *rapid.T, excluded *int) C02Case {
	cfg := c02Cfg()
	cfg.Excluded = excluded
	c := C02Case{Schema: h.GenSchema(t, cfg)}
	if rapid.IntRange(0, 2).Draw(t, "remove") == 0 {
		c.RemoveMS = rapid.SampledFrom([]int{3, 10}).Draw(t, "removems")
	}
	nr := rapid.IntRange(1, 3).Draw(t, "rounds")
	for i := 0; i < nr; i++ {
		c.Rounds = append(c.Rounds, genC02Round(t, cfg, &c.Schema, fmt.Sprintf("r%d", i)))
	}
	return c
}

// TestC02Child runs one round in a child process.
func TestC02Child(t *testing.T) {
	caseFile := os.Getenv("VERIF_C02_CASE")
	if caseFile == "" {
		t.Skip("child only")
	}
	var c C02Case
	b, err := os.ReadFile(caseFile)
	if err != nil || json.Unmarshal(b, &c) != nil {
		fmt.Println("CHILD-ERROR cannot read case")
		os.Exit(3)
	}
	round, _ := strconv.Atoi(os.Getenv("VERIF_C02_ROUND"))
	base, _ := strconv.Atoi(os.Getenv("VERIF_C02_BASE"))
	out := bufio.NewWriter(os.Stdout)
	say := func(format string, args ...interface{}) {
		fmt.Fprintf(out, format+"\n", args...)
		out.Flush()
	}
	marker := int64(round+1) * 1000000
	db, err := h.OpenDB(os.Getenv("VERIF_C02_DIR"), &c.Schema, h.DBConf{}, &marker)
	if err != nil {
		say("CHILD-ERROR open: %v", err)
		os.Exit(4)
	}
	say("OPENED")
	r := c.Rounds[round]
	idx := base
	for _, op := range r.Ops {
		switch op.K {
		case "ins":
			say("TRY %d", idx)
			if err := db.Insert("inbound", *op.P); err != nil {
				say("CHILD-ERROR insert %d: %v", idx, err)
				os.Exit(5)
			}
			say("ACK %d", idx)
			idx++
		case "flush":
			if op.Wait {
				if err := db.Quiesce(); err != nil {
					say("CHILD-ERROR quiesce: %v", err)
					os.Exit(6)
				}
			}
			db.Flush()
		case "sleep":
			time.Sleep(time.Duration(op.MS) * time.Millisecond)
		}
	}
	if r.Kill == "async" || r.Kill == "asynctry" {
		say("IDLE")
		time.Sleep(30 * time.Second) // the parent kills us
	}
	if r.Kill == "point" {
		// give the background work (timer flushes, removal) a moment to reach the point
		if err := db.Quiesce(); err == nil {
			db.Flush()
			time.Sleep(time.Duration(2+c.RemoveMS*3) * time.Millisecond)
		}
	}
	hits, _ := json.Marshal(zenodb.VerifPointHits())
	say("HITS %s", hits)
	// DB.Close can block forever while a table is still handing entries to its
	// row store (shutdown liveness, not a C02 subject): close a caught-up database
	if err := db.Quiesce(); err != nil {
		say("CHILD-ERROR quiesce before close: %v", err)
		os.Exit(7)
	}
	db.Close()
	say("DONE")
}

type c02RoundResult struct {
	tried, acked map[int]bool
	crashed      string // "name n" when a crash point fired
	killed       bool   // died by SIGKILL
	done         bool
	hits         map[string]int
	output       string
}

// runC02Round executes one round in a child process.
func runC02Round(caseFile, dir string, c *C02Case, round, base int, crashAt string) (*c02RoundResult, error) {
	r := c.Rounds[round]
	cmd := exec.Command(os.Args[0], "-test.run", "^TestC02Child$", "-test.timeout", "120s")
	env := []string{}
	for _, e := range os.Environ() {
		if strings.HasPrefix(e, "VERIF_SHARD_OUT=") || strings.HasPrefix(e, "VERIF_CRASH_AT=") || strings.HasPrefix(e, "VERIF_REMOVE_MS=") || strings.HasPrefix(e, "VERIF_PAUSE_AT=") {
			continue
		}
		env = append(env, e)
	}
	env = append(env, "VERIF_C02_CASE="+caseFile, "VERIF_C02_DIR="+dir, fmt.Sprintf("VERIF_C02_ROUND=%d", round), fmt.Sprintf("VERIF_C02_BASE=%d", base))
	if crashAt != "" {
		env = append(env, "VERIF_CRASH_AT="+crashAt)
	}
	if c.RemoveMS > 0 {
		env = append(env, fmt.Sprintf("VERIF_REMOVE_MS=%d", c.RemoveMS))
	}
	if r.Pause != "" {
		env = append(env, fmt.Sprintf("VERIF_PAUSE_AT=%s:%d:%d", r.Pause, r.PauseN, r.PauseMS))
	}
	cmd.Env = env
	stdout, err := cmd.StdoutPipe()
	if err != nil {
		return nil, fmt.Errorf("%w: pipe: %v", errSetup, err)
	}
	var stderr strings.Builder
	cmd.Stderr = &stderr
	if err := cmd.Start(); err != nil {
		return nil, fmt.Errorf("%w: start child: %v", errSetup, err)
	}
	res := &c02RoundResult{tried: map[int]bool{}, acked: map[int]bool{}}
	var mx sync.Mutex
	var sb strings.Builder
	wedged := false
	killTimer := time.AfterFunc(45*time.Second, func() {
		wedged = true
		cmd.Process.Signal(syscall.SIGQUIT) // goroutine dump on stderr
		time.Sleep(2 * time.Second)
		cmd.Process.Kill()
	})
	defer killTimer.Stop()
	sc := bufio.NewScanner(stdout)
	sc.Buffer(make([]byte, 1<<20), 1<<20)
	for sc.Scan() {
		line := sc.Text()
		mx.Lock()
		if sb.Len() < 8000 {
			sb.WriteString(line + "\n")
		}
		mx.Unlock()
		switch {
		case strings.HasPrefix(line, "TRY "):
			i, _ := strconv.Atoi(line[4:])
			res.tried[i] = true
			if r.Kill == "asynctry" && crashAt == "" && i-base == r.AfterAck {
				d := time.Duration(r.DelayUS) * time.Microsecond
				go func() {
					time.Sleep(d)
					cmd.Process.Signal(syscall.SIGKILL)
				}()
			}
		case strings.HasPrefix(line, "ACK "):
			i, _ := strconv.Atoi(line[4:])
			res.acked[i] = true
			if r.Kill == "async" && crashAt == "" && i-base == r.AfterAck {
				d := time.Duration(r.DelayUS) * time.Microsecond
				go func() {
					time.Sleep(d)
					cmd.Process.Signal(syscall.SIGKILL)
				}()
			}
		case strings.HasPrefix(line, "VERIF-CRASH "):
			res.crashed = strings.TrimPrefix(line, "VERIF-CRASH ")
		case strings.HasPrefix(line, "HITS "):
			json.Unmarshal([]byte(line[5:]), &res.hits)
		case line == "DONE":
			res.done = true
		case line == "IDLE":
			if r.Kill == "async" || r.Kill == "asynctry" {
				// the arming ACK may have been missed only if there was no insert
				go func() {
					time.Sleep(20 * time.Millisecond)
					cmd.Process.Signal(syscall.SIGKILL)
				}()
			}
		}
	}
	werr := cmd.Wait()
	res.output = sb.String()
	if os.Getenv("VERIF_DEBUG") == "2" {
		fmt.Fprintf(os.Stderr, "CHILD round %d output:\n%s\n", round, res.output)
	}
	if wedged {
		if os.Getenv("VERIF_DEBUG") != "" {
			fmt.Fprintf(os.Stderr, "WEDGED CHILD round %d\n%s\n%s\n", round, res.output, stderr.String())
		}
		return res, fmt.Errorf("%w: round %d: child process did not finish within 45 s\n%s", h.ErrInconclusive, round, tailStr(res.output, 600))
	}
	if werr != nil {
		if ee, ok := werr.(*exec.ExitError); ok {
			if ws, ok := ee.Sys().(syscall.WaitStatus); ok && ws.Signaled() && ws.Signal() == syscall.SIGKILL {
				res.killed = true
			}
		}
	}
	if !res.killed && !res.done {
		return res, fmt.Errorf("round %d: the child process neither finished nor was killed (exit: %v); on a directory left by earlier rounds this means recovery failed\n%s", round, werr, tailStr(res.output, 1500))
	}
	return res, nil
}

func tailStr(s string, n int) string {
	if len(s) > n {
		return "..." + s[len(s)-n:]
	}
	return s
}

// allPoints lists the inserted points of all rounds in global index order.
func (c *C02Case) allPoints() []h.Point {
	var out []h.Point
	for _, r := range c.Rounds {
		for _, op := range r.Ops {
			if op.K == "ins" {
				out = append(out, *op.P)
			}
		}
	}
	return out
}

type c02Info struct {
	labels   []string
	killed   int
	inflight int
}

// verifyC02 opens the directory in-process and compares with the reference.
func verifyC02(c *C02Case, dir string, acked, inflight []int) error {
	pts := c.allPoints()
	marker := int64(len(c.Rounds)+2) * 1000000
	db, err := h.OpenDB(dir, &c.Schema, h.DBConf{}, &marker)
	if err != nil {
		return fmt.Errorf("the directory cannot be opened after the last round: %v", err)
	}
	defer db.Close()
	if err := db.Quiesce(); err != nil {
		if h.IsInconclusive(err) {
			// C02: recovery must catch up; decide by a second attempt
			if err2 := db.Quiesce(); err2 != nil {
				return fmt.Errorf("after restart ingestion did not catch up (two bounded waits expired): %v", strings.Replace(err2.Error(), "inconclusive: ", "", -1))
			}
		} else {
			return err
		}
	}
	var hi int64
	for _, p := range pts {
		if p.TS > hi {
			hi = p.TS
		}
	}
	db.Z.VerifAdvanceClock(time.Unix(0, hi))
	split := func(p h.Point) []h.SubPoint { return h.SubPointsOf(p, true) }
	hasArray := func(p h.Point) bool {
		for _, kv := range p.Vals {
			if kv.V.K == "ints" || kv.V.K == "floats" {
				return true
			}
		}
		return false
	}
	var ackedPts []h.Point
	for _, i := range acked {
		ackedPts = append(ackedPts, pts[i])
	}
	for pass, mem := range []bool{true, false} {
		if pass == 1 {
			db.Flush()
		}
		var firstErr error
		ok := false
		// every subset of the in-flight points (each applied entirely or not at all)
		for mask := 0; mask < 1<<uint(len(inflight)) && !ok; mask++ {
			sel := append([]h.Point(nil), ackedPts...)
			for b, i := range inflight {
				if mask&(1<<uint(b)) != 0 {
					sel = append(sel, pts[i])
				}
			}
			want := expectedRowsWith(&c.Schema, sel, split)
			bad := ""
			for _, t := range c.Schema.Tables {
				res, err := db.Query("SELECT * FROM "+t.Name, h.QueryOpts{Mem: mem})
				if err != nil {
					if h.IsInconclusive(err) {
						return err
					}
					return fmt.Errorf("table %s: query failed after recovery: %v", t.Name, err)
				}
				if d := h.DiffRows(want[t.Name], res.Rows, nil); d != "" {
					bad = fmt.Sprintf("table %s (%s), memstore=%v: %s", t.Name, t.SQL(), mem, d)
					break
				}
			}
			if bad == "" {
				ok = true
			} else if firstErr == nil {
				firstErr = fmt.Errorf("%s", bad)
			}
		}
		if ok {
			continue
		}
		// an in-flight array point may have been applied in part: bound the counts
		partial := false
		for _, i := range inflight {
			if hasArray(pts[i]) {
				partial = true
			}
		}
		if partial {
			lo := expectedRowsWith(&c.Schema, ackedPts, split)
			var all []h.Point
			all = append(all, ackedPts...)
			for _, i := range inflight {
				all = append(all, pts[i])
			}
			hiRows := expectedRowsWith(&c.Schema, all, split)
			within := true
			for _, t := range c.Schema.Tables {
				res, err := db.Query("SELECT * FROM "+t.Name, h.QueryOpts{Mem: mem})
				if err != nil {
					return err
				}
				if !pointsWithin(lo[t.Name], hiRows[t.Name], res.Rows) {
					within = false
				}
			}
			if within {
				continue
			}
		}
		return fmt.Errorf("after %d round(s) and a final restart the tables do not hold every acknowledged insert exactly once (%d acknowledged, %d in flight at a kill; compared with acknowledged + every subset of the in-flight points; first subset: acknowledged only)\n%v", len(c.Rounds), len(acked), len(inflight), firstErr)
	}
	return nil
}

// pointsWithin checks lo <= _points <= hi per (key, period).
func pointsWithin(lo, hi, got []h.RefRow) bool {
	id := func(r h.RefRow) string { return fmt.Sprintf("%s|%d", r.Key, r.TS) }
	los, his := map[string]float64{}, map[string]float64{}
	for _, r := range lo {
		los[id(r)] = r.Vals["_points"]
	}
	for _, r := range hi {
		his[id(r)] = r.Vals["_points"]
	}
	seen := map[string]bool{}
	for _, r := range got {
		n := r.Vals["_points"]
		if n < los[id(r)] || n > his[id(r)] {
			return false
		}
		seen[id(r)] = true
	}
	for k, n := range los {
		if n > 0 && !seen[k] {
			return false
		}
	}
	return true
}

// runC02 executes all rounds and verifies.
func runC02(c *C02Case) (*c02Info, error) {
	info := &c02Info{}
	root := h.ScratchDir("c02")
	defer removeAll(root)
	dir := filepath.Join(root, "data")
	caseFile := filepath.Join(root, "case.json")
	b, _ := json.Marshal(c)
	if err := os.WriteFile(caseFile, b, 0644); err != nil {
		return info, fmt.Errorf("%w: %v", errSetup, err)
	}
	var acked, inflight []int
	base := 0
	for ri, r := range c.Rounds {
		crashAt := ""
		if r.Kill == "point" {
			crashAt = fmt.Sprintf("%s:%d", r.Point, r.N)
		}
		res, err := runC02Round(caseFile, dir, c, ri, base, crashAt)
		if err != nil {
			if ri == 0 && res != nil && !strings.Contains(res.output, "OPENED") {
				return info, fmt.Errorf("%w: %v", errSetup, err)
			}
			return info, err
		}
		nins := 0
		for _, op := range r.Ops {
			if op.K == "ins" {
				nins++
			}
		}
		for i := base; i < base+nins; i++ {
			switch {
			case res.acked[i]:
				acked = append(acked, i)
			case res.tried[i]:
				inflight = append(inflight, i)
			}
		}
		// points after the kill were never tried: a later round does not re-issue them
		if res.killed {
			info.killed++
			if res.crashed != "" {
				info.labels = append(info.labels, "crash@"+strings.Fields(res.crashed)[0])
			} else {
				info.labels = append(info.labels, "async-kill")
			}
		} else {
			info.labels = append(info.labels, "clean-close")
		}
		base += nins
	}
	info.inflight = len(inflight)
	sort.Ints(acked)
	if len(inflight) > 6 {
		return info, fmt.Errorf("%w: too many in-flight points", errSetup)
	}
	return info, verifyC02(c, dir, acked, inflight)
}

func TestC02(t *testing.T) {
	rec := h.NewRec(t, "TestC02")
	excluded := 0
	defer func() { rec.Excluded(excluded) }()
	rapid.Check(t, func(rt *rapid.T) {
		c := genC02(rt, &excluded)
		info, err := runC02(&c)
		labels := info.labels
		if info.inflight > 0 {
			labels = append(labels, "in-flight-point")
		}
		if len(c.Rounds) > 1 {
			labels = append(labels, "multi-round")
		}
		if outcome(rec, rt, &c, info.killed > 0, labels, err) {
			rt.Fatalf("%v", err)
		}
	})
}

// TestC02Enum: fault enumeration. For each generated single-round script a
// profiling run records how often every crash point is reached; then the
// script is re-run once per (point, occurrence) with the kill at exactly that
// hit, each on a fresh directory (after an optional clean first round).
func TestC02Enum(t *testing.T) {
	rec := h.NewRec(t, "TestC02Enum")
	excluded := 0
	defer func() { rec.Excluded(excluded) }()
	maxKills := 25
	if h.Thorough() {
		maxKills = 60
	}
	rapid.Check(t, func(rt *rapid.T) {
		c := genC02(rt, &excluded)
		// last round is the one under enumeration; earlier rounds end cleanly
		for i := range c.Rounds {
			c.Rounds[i].Kill = "none"
		}
		last := len(c.Rounds) - 1
		// profile
		prof := c
		prof.Rounds = append([]C02Round(nil), c.Rounds...)
		prof.Rounds[last].Kill = "point"
		prof.Rounds[last].Point, prof.Rounds[last].N = "never", 1
		hits, err := profileC02(&prof)
		if err != nil {
			if outcome(rec, rt, &c, false, []string{"profile-failed"}, err) {
				rt.Fatalf("%v", err)
			}
			return
		}
		type kill struct {
			name string
			n    int
		}
		var kills []kill
		for _, name := range c02Points {
			for n := 1; n <= hits[name] && n <= 8; n++ {
				kills = append(kills, kill{name, n})
			}
		}
		if len(kills) > maxKills {
			// keep a deterministic spread
			step := float64(len(kills)) / float64(maxKills)
			var kept []kill
			for i := 0; i < maxKills; i++ {
				kept = append(kept, kills[int(float64(i)*step)])
			}
			kills = kept
		}
		for _, k := range kills {
			kc := c
			kc.Rounds = append([]C02Round(nil), c.Rounds...)
			kc.Rounds[last].Kill, kc.Rounds[last].Point, kc.Rounds[last].N = "point", k.name, k.n
			info, err := runC02(&kc)
			labels := append(info.labels, "enumerated")
			if outcome(rec, rt, &kc, info.killed > 0, labels, err) {
				rt.Fatalf("%v", err)
			}
		}
	})
}

// profileC02 runs the case without any kill and returns the crash-point hit
// counts of its last round.
func profileC02(c *C02Case) (map[string]int, error) {
	root := h.ScratchDir("c02p")
	defer removeAll(root)
	dir := filepath.Join(root, "data")
	caseFile := filepath.Join(root, "case.json")
	b, _ := json.Marshal(c)
	if err := os.WriteFile(caseFile, b, 0644); err != nil {
		return nil, fmt.Errorf("%w: %v", errSetup, err)
	}
	base := 0
	var hits map[string]int
	for ri, r := range c.Rounds {
		res, err := runC02Round(caseFile, dir, c, ri, base, "")
		if err != nil {
			return nil, fmt.Errorf("%w: profiling run: %v", errSetup, err)
		}
		hits = res.hits
		for _, op := range r.Ops {
			if op.K == "ins" {
				base++
			}
		}
	}
	return hits, nil
}

func init() {
	for _, name := range []string{"TestC02", "TestC02Enum"} {
		register(name, func(raw json.RawMessage) error {
			var c C02Case
			if err := json.Unmarshal(raw, &c); err != nil {
				return err
			}
			_, err := runC02(&c)
			return err
		})
	}
}
