package checks

import (
	"encoding/json"
	"fmt"
	"sort"
	"sync"
	"sync/atomic"
	"testing"
	"time"

	"verifharness/h"

	"pgregory.net/rapid"
)

// C18: a memstore-inclusive query observes the table as of a single instant.
//
// (a) TestC18: the harness owns the schedule. A streaming scan (SELECT * with
// an optional dimension filter: the only plans that deliver rows while the
// scan is still running) is paused inside its row callback; during the pause
// generated points are inserted and processed (exact ingestion barrier) and
// optionally flushed. The delivered rows must equal the rows the same query
// returned on the quiescent database just before, and those must equal the
// reference aggregation of the prefix.
//
// (b) TestC18Stream: inserts, flushes and queries run concurrently; the stream
// is built so that every prefix of it has a unique, recognisable image (see
// prefixRows), so each observed result can be checked for being the image of
// one prefix, whatever the interleaving was.

// C18Pause is a set of operations executed inside the row callback.
type C18Pause struct {
	K   int  `json:"k"` // pause after row (K mod number-of-rows)
	Ops []Op `json:"ops"`
}

type C18Case struct {
	Data   DataCase   `json:"data"`
	Where  *h.Pred    `json:"where,omitempty"`
	Pauses []C18Pause `json:"pauses"`
}

func c18Cfg() *h.GenCfg {
	maxPts := 30
	if h.Thorough() {
		maxPts = 70
	}
	return &h.GenCfg{MaxPoints: maxPts, MaxPeriods: 6, MaxTables: 1, MaxFields: 4, AllowWhere: true, AllowPct: true, AllowIf: true, AllowMixed: true}
}

func genC18(t *rapid.T) C18Case {
	cfg := c18Cfg()
	c := C18Case{Data: genData(t, cfg)}
	s := &c.Data.Schema
	if rapid.IntRange(0, 3).Draw(t, "where") == 0 {
		c.Where = predOver(t, keyDims(s), "w")
	}
	np := rapid.IntRange(1, 3).Draw(t, "npauses")
	for i := 0; i < np; i++ {
		p := C18Pause{K: rapid.IntRange(0, 40).Draw(t, fmt.Sprintf("k%d", i))}
		n := rapid.IntRange(1, 8).Draw(t, fmt.Sprintf("nops%d", i))
		for j := 0; j < n; j++ {
			label := fmt.Sprintf("p%d.%d", i, j)
			if rapid.IntRange(0, 7).Draw(t, label+".flush") == 0 {
				p.Ops = append(p.Ops, Op{K: "flush"})
				continue
			}
			pt := h.GenPoint(t, cfg, s, cfg.MaxPeriods, label)
			if len(c.Data.Points) > 0 && rapid.IntRange(0, 2).Draw(t, label+".hit") > 0 {
				// aim at a key (and often the period) that is already stored
				base := c.Data.Points[rapid.IntRange(0, len(c.Data.Points)-1).Draw(t, label+".base")]
				pt.Dims = base.Dims
				if rapid.Bool().Draw(t, label+".samets") {
					pt.TS = base.TS
				}
			}
			p.Ops = append(p.Ops, Op{K: "ins", P: &pt})
		}
		c.Pauses = append(c.Pauses, p)
	}
	return c
}

func (c *C18Case) midPoints() []h.Point {
	var out []h.Point
	for _, p := range c.Pauses {
		for _, op := range p.Ops {
			if op.K == "ins" {
				out = append(out, *op.P)
			}
		}
	}
	return out
}

func (c *C18Case) sql() string {
	q := "SELECT * FROM ta"
	if c.Where != nil {
		q += " WHERE " + c.Where.SQL()
	}
	return q
}

// runC18 returns labels describing what the run reached, and the verdict.
func runC18(c *C18Case) ([]string, bool, error) {
	var labels []string
	nontrivial := false
	all := append(append([]h.Point(nil), c.Data.Points...), c.midPoints()...)
	now := maxTS(all)
	err := c.Data.withDB("c18", h.DBConf{}, func(db *h.DB) error {
		db.Z.VerifAdvanceClock(time.Unix(0, now))
		r0, err := db.Query(c.sql(), h.QueryOpts{Mem: true})
		if err != nil {
			if h.IsInconclusive(err) {
				return err
			}
			return fmt.Errorf("%w: quiescent query failed: %v", errSetup, err)
		}
		if c.Where == nil {
			want := expectedRows(&c.Data.Schema, c.Data.Points, false)["ta"]
			if d := h.DiffRows(want, r0.Rows, nil); d != "" {
				return fmt.Errorf("quiescent %s does not reflect the processed prefix in all fields: %s", c.sql(), d)
			}
		}
		nrows := len(r0.Rows)
		pauseAt := map[int][]Op{}
		for _, p := range c.Pauses {
			k := 0
			if nrows > 0 {
				k = p.K % nrows
			}
			pauseAt[k] = append(pauseAt[k], p.Ops...)
		}
		// keys that live in the memstore at scan start
		lastFlush := 0
		for _, f := range c.Data.FlushAt {
			if f > lastFlush {
				lastFlush = f
			}
		}
		sem := h.SemFor(&c.Data.Schema, "ta")
		memKeys := map[string]bool{}
		for i, p := range c.Data.Points {
			if i >= lastFlush {
				for _, sp := range h.SubPointsOf(p, false) {
					if sem.Accepts(sp.Dims) {
						memKeys[h.KeyOf(sem.Def, sp.Dims)] = true
					}
				}
			}
		}
		delivered := map[string]bool{}
		var inserted []h.Point
		var cbErr error
		hitUndelivered, hitMem, flushed, paused := false, false, false, false
		r1, err := db.Query(c.sql(), h.QueryOpts{Mem: true, OnRow: func(i int, r h.RefRow) {
			delivered[r.Key] = true
			ops, ok := pauseAt[i]
			if !ok || cbErr != nil {
				return
			}
			paused = true
			for _, op := range ops {
				switch op.K {
				case "ins":
					if err := db.Insert("inbound", *op.P); err != nil {
						cbErr = fmt.Errorf("insert during scan: %v", err)
						return
					}
					inserted = append(inserted, *op.P)
					for _, sp := range h.SubPointsOf(*op.P, false) {
						if sem.Accepts(sp.Dims) {
							k := h.KeyOf(sem.Def, sp.Dims)
							if !delivered[k] {
								hitUndelivered = true
								if memKeys[k] {
									hitMem = true
								}
							}
						}
					}
				case "flush":
					if err := db.Quiesce(); err != nil {
						cbErr = err
						return
					}
					db.Flush()
					flushed = true
				}
			}
			if err := db.Quiesce(); err != nil {
				cbErr = err
			}
		}})
		if cbErr != nil {
			if h.IsInconclusive(cbErr) {
				return cbErr
			}
			return fmt.Errorf("%w: %v", errSetup, cbErr)
		}
		if err != nil {
			if h.IsInconclusive(err) {
				return err
			}
			return fmt.Errorf("scan with inserts/flushes during its row callbacks failed: %v (the same query succeeded on the quiescent database)", err)
		}
		if paused {
			labels = append(labels, "paused-mid-scan")
		}
		if hitUndelivered {
			labels = append(labels, "mid-scan-point-on-undelivered-key")
		}
		if hitMem {
			labels = append(labels, "mid-scan-point-on-undelivered-memstore-key")
		}
		if flushed {
			labels = append(labels, "mid-scan-flush")
		}
		nontrivial = paused && hitUndelivered
		if d := h.DiffRows(r0.Rows, r1.Rows, r0.Fields); d != "" {
			return fmt.Errorf("%s: rows delivered by a scan during which %d points were processed differ from the rows at scan start (want = quiescent result just before the scan):\n%s", c.sql(), len(inserted), d)
		}
		// afterwards everything is visible
		if c.Where == nil {
			r2, err := db.Query(c.sql(), h.QueryOpts{Mem: true})
			if err != nil {
				return err
			}
			want := expectedRows(&c.Data.Schema, append(append([]h.Point(nil), c.Data.Points...), inserted...), false)["ta"]
			if d := h.DiffRows(want, r2.Rows, nil); d != "" {
				return fmt.Errorf("after the scan, %s does not reflect all processed points: %s", c.sql(), d)
			}
		}
		return nil
	})
	labels = append(labels, c.Data.splitLabels()...)
	return labels, nontrivial, err
}

func TestC18(t *testing.T) {
	rec := h.NewRec(t, "TestC18")
	rapid.Check(t, func(rt *rapid.T) {
		c := genC18(rt)
		labels, nt, err := runC18(&c)
		if outcome(rec, rt, &c, nt, labels, err) {
			rt.Fatalf("%v", err)
		}
	})
}

// ---------------------------------------------------------------------------
// (b) concurrent stream with a prefix oracle

// C18Stream describes a concurrent run. Point j of the stream goes to key
// j mod Keys with timestamp in period (j div Keys) mod Periods and carries
// va=1, vb=key index+1, so that the image of a prefix of length L is unique and
// L can be read off any consistent result as the sum of _points.
type C18Stream struct {
	Keys      int   `json:"keys"`
	Rounds    int   `json:"rounds"`
	Periods   int   `json:"periods"`
	FlushAt   []int `json:"flush_at"`   // force a flush once this many points have been inserted
	BarrierAt []int `json:"barrier_at"` // the inserter waits for ingestion here (static phase)
	Queriers  int   `json:"queriers"`
	TimerMS   int   `json:"timer_ms,omitempty"`
	Subset    bool  `json:"subset,omitempty"` // queriers alternate SELECT * with a field-subset query
	DiskToo   bool  `json:"disk_too,omitempty"`
}

const c18Res = int64(time.Second)

func (c *C18Stream) schema() *h.Schema {
	return &h.Schema{Tables: []h.TableDef{{
		Name: "ta", Stream: "inbound", GroupBy: []string{"dk"}, ResNS: c18Res, RetNS: 3600 * c18Res,
		MaxFlushNS: int64(c.TimerMS) * 1e6,
		Fields: []h.FieldDef{
			{Name: "fa", Ex: &h.Ex{Op: "SUM", F: "va"}},
			{Name: "fb", Ex: &h.Ex{Op: "SUM", F: "vb"}},
			{Name: "fc", Ex: &h.Ex{Op: "MAX", F: "vb"}},
			{Name: "fd", Ex: &h.Ex{Op: "AVG", F: "vb"}},
		}}}}
}

func (c *C18Stream) point(j int) h.Point {
	key := j % c.Keys
	round := j / c.Keys
	ts := h.PeriodEnd(h.BaseTS, c18Res) + int64(round%c.Periods)*c18Res
	return h.Point{TS: ts, Dims: []h.KV{{N: "dk", V: h.StrV(fmt.Sprintf("k%06d", key))}},
		Vals: []h.KV{{N: "va", V: h.IntV(1)}, {N: "vb", V: h.IntV(int64(key + 1))}}}
}

// prefixRows is the image of the first L points.
func (c *C18Stream) prefixRows(L int) map[string]float64 {
	out := map[string]float64{}
	for j := 0; j < L; j++ {
		key := j % c.Keys
		round := j / c.Keys
		out[fmt.Sprintf("%d/%d", key, round%c.Periods)]++
	}
	return out
}

// checkPrefix verifies that a result is the image of one prefix with
// lo <= L <= hi.
func (c *C18Stream) checkPrefix(res *h.Result, lo, hi int, subset bool) error {
	total := 0.0
	got := map[string]float64{}
	base := h.PeriodEnd(h.BaseTS, c18Res)
	for _, r := range res.Rows {
		var key int
		s, _ := r.KeyMap["dk"].(string)
		if _, err := fmt.Sscanf(s, "k%06d", &key); err != nil {
			return fmt.Errorf("unexpected row key %q", r.Key)
		}
		p := (r.TS - base) / c18Res
		id := fmt.Sprintf("%d/%d", key, p)
		if _, dup := got[id]; dup {
			return fmt.Errorf("key %s period %d returned twice", s, p)
		}
		n := r.Vals["_points"]
		if subset {
			n = r.Vals["fa"]
		}
		got[id] = n
		total += n
		// all fields of one row must reflect the same points
		if r.Vals["fa"] != n || r.Vals["fb"] != n*float64(key+1) {
			return fmt.Errorf("row %s mixes different instants: points=%v fa=%v fb=%v (fb must be %v)", r, n, r.Vals["fa"], r.Vals["fb"], n*float64(key+1))
		}
		if !subset && (r.Vals["fc"] != float64(key+1) || r.Vals["fd"] != float64(key+1)) {
			return fmt.Errorf("row %s: fc/fd must be %d", r, key+1)
		}
	}
	L := int(total)
	if L < lo || L > hi {
		return fmt.Errorf("result reflects %d points, but between %d and %d points had been processed/inserted while it ran (%d rows)", L, lo, hi, len(res.Rows))
	}
	want := c.prefixRows(L)
	if len(want) != len(got) {
		return fmt.Errorf("result is not the image of any stream prefix: it reflects %d points in %d rows, the prefix of %d points has %d rows", L, len(got), L, len(want))
	}
	for id, n := range want {
		if got[id] != n {
			return fmt.Errorf("result is not the image of any stream prefix: it reflects %d points in total but (key/period) %s has %v instead of %v", L, id, got[id], n)
		}
	}
	return nil
}

func genC18Stream(t *rapid.T) C18Stream {
	big := h.Thorough() && rapid.IntRange(0, 3).Draw(t, "big") == 0
	maxKeys := 400
	if big {
		maxKeys = 20000
	}
	c := C18Stream{
		Keys:     rapid.IntRange(1, maxKeys).Draw(t, "keys"),
		Rounds:   rapid.IntRange(1, 6).Draw(t, "rounds"),
		Periods:  rapid.IntRange(1, 3).Draw(t, "periods"),
		Queriers: rapid.IntRange(1, 4).Draw(t, "queriers"),
		Subset:   rapid.Bool().Draw(t, "subset"),
		DiskToo:  rapid.Bool().Draw(t, "disk"),
	}
	if rapid.IntRange(0, 3).Draw(t, "timer") == 0 {
		c.TimerMS = rapid.IntRange(1, 5).Draw(t, "timerms")
	}
	total := c.Keys * c.Rounds
	nf := rapid.IntRange(0, 6).Draw(t, "nflush")
	for i := 0; i < nf; i++ {
		c.FlushAt = append(c.FlushAt, rapid.IntRange(1, total).Draw(t, fmt.Sprintf("f%d", i)))
	}
	nb := rapid.IntRange(0, 3).Draw(t, "nbarrier")
	for i := 0; i < nb; i++ {
		c.BarrierAt = append(c.BarrierAt, rapid.IntRange(1, total).Draw(t, fmt.Sprintf("b%d", i)))
	}
	sort.Ints(c.FlushAt)
	sort.Ints(c.BarrierAt)
	return c
}

func runC18Stream(c *C18Stream) (int, error) {
	dir := h.ScratchDir("c18s")
	defer removeAll(dir)
	db, err := h.OpenDB(dir, c.schema(), h.DBConf{}, nil)
	if err != nil {
		return 0, fmt.Errorf("%w: open: %v", errSetup, err)
	}
	defer db.Close()
	// the query window is fixed when a query is planned: pin the virtual clock to
	// the newest timestamp of the stream so that every plan covers all periods
	db.Z.VerifAdvanceClock(time.Unix(0, h.PeriodEnd(h.BaseTS, c18Res)+int64(c.Periods-1)*c18Res))
	total := c.Keys * c.Rounds
	var started, processed int64 // points whose Insert has started / that are known to be processed
	var stop int32
	var mx sync.Mutex
	var firstErr error
	fail := func(err error) {
		mx.Lock()
		if firstErr == nil {
			firstErr = err
		}
		mx.Unlock()
		atomic.StoreInt32(&stop, 1)
	}
	var checked int64
	query := func(qi int, n int) {
		subset := c.Subset && n%2 == 1
		mem := !(c.DiskToo && n%3 == 2)
		sql := "SELECT * FROM ta"
		if subset {
			sql = "SELECT fa, fb FROM ta"
		}
		lo := int(atomic.LoadInt64(&processed))
		res, err := db.Query(sql, h.QueryOpts{Mem: mem})
		hi := int(atomic.LoadInt64(&started))
		if err != nil {
			if h.IsInconclusive(err) {
				fail(err)
			} else {
				fail(fmt.Errorf("%s (memstore=%v) failed while inserts/flushes were running: %v", sql, mem, err))
			}
			return
		}
		if !mem {
			lo = 0 // the file store lags behind by design
		}
		if err := c.checkPrefix(res, lo, hi, subset); err != nil {
			fail(fmt.Errorf("%s (memstore=%v) concurrent with inserts and flushes: %v", sql, mem, err))
		}
		atomic.AddInt64(&checked, 1)
	}
	var wg sync.WaitGroup
	for qi := 0; qi < c.Queriers; qi++ {
		wg.Add(1)
		go func(qi int) {
			defer wg.Done()
			for n := 0; atomic.LoadInt32(&stop) == 0; n++ {
				query(qi, n)
			}
		}(qi)
	}
	flushCh := make(chan struct{}, len(c.FlushAt)+1)
	wg.Add(1)
	go func() {
		defer wg.Done()
		for range flushCh {
			db.Flush()
		}
	}()
	fi, bi := 0, 0
	for j := 0; j < total && atomic.LoadInt32(&stop) == 0; j++ {
		atomic.StoreInt64(&started, int64(j+1))
		if err := db.Insert("inbound", c.point(j)); err != nil {
			fail(fmt.Errorf("insert: %v", err))
			break
		}
		for fi < len(c.FlushAt) && c.FlushAt[fi] <= j+1 {
			flushCh <- struct{}{}
			fi++
		}
		for bi < len(c.BarrierAt) && c.BarrierAt[bi] <= j+1 {
			if err := db.Quiesce(); err != nil {
				fail(err)
				break
			}
			atomic.StoreInt64(&processed, int64(j+1))
			// static phase: let every querier look at a database that only flushes
			time.Sleep(2 * time.Millisecond)
			bi++
		}
	}
	close(flushCh)
	if atomic.LoadInt32(&stop) == 0 {
		if err := db.Quiesce(); err != nil {
			fail(err)
		} else {
			atomic.StoreInt64(&processed, int64(total))
			time.Sleep(2 * time.Millisecond)
		}
	}
	atomic.StoreInt32(&stop, 1)
	wg.Wait()
	if firstErr != nil {
		return int(checked), firstErr
	}
	// final: exactly the whole stream
	for n := 0; n < 2; n++ {
		res, err := db.Query("SELECT * FROM ta", h.QueryOpts{Mem: true})
		if err != nil {
			return int(checked), err
		}
		if err := c.checkPrefix(res, total, total, false); err != nil {
			return int(checked), fmt.Errorf("after the stream was processed: %v", err)
		}
		db.Flush()
	}
	return int(checked), nil
}

func TestC18Stream(t *testing.T) {
	rec := h.NewRec(t, "TestC18Stream")
	rapid.Check(t, func(rt *rapid.T) {
		c := genC18Stream(rt)
		n, err := runC18Stream(&c)
		labels := []string{"stream"}
		if len(c.FlushAt) > 0 {
			labels = append(labels, "stream-with-flushes")
		}
		if c.Keys >= 1000 {
			labels = append(labels, "stream-large-memstore")
		}
		rec.AddExtra("stream_results_checked", n)
		if outcome(rec, rt, &c, n >= 2 && c.Keys*c.Rounds >= 2, labels, err) {
			rt.Fatalf("%v", err)
		}
	})
}

func init() {
	register("TestC18", func(raw json.RawMessage) error {
		var c C18Case
		if err := json.Unmarshal(raw, &c); err != nil {
			return err
		}
		_, _, err := runC18(&c)
		return err
	})
	register("TestC18Stream", func(raw json.RawMessage) error {
		var c C18Stream
		if err := json.Unmarshal(raw, &c); err != nil {
			return err
		}
		_, err := runC18Stream(&c)
		return err
	})
}
