package checks

import (
	"compress/gzip"
	"context"
	"encoding/json"
	"errors"
	"fmt"
	"io"
	"net/http"
	"net/http/httptest"
	"net/url"
	"sort"
	"strings"
	"sync/atomic"
	"testing"
	"time"

	"verifharness/h"

	"github.com/getlantern/bytemap"
	"github.com/getlantern/zenodb/core"
	"github.com/getlantern/zenodb/planner"
	"github.com/getlantern/zenodb/web"
	"github.com/gorilla/mux"
	"pgregory.net/rapid"
)

// C13: a result that omits data is never presented as complete.
//
// Ground truth is always the same query without the fault. The oracle is an
// implication, so that timing can only cost coverage, never soundness:
//
//	rows != truth  =>  error  OR  (cluster) stats name missing partitions  OR  (HTTP) status != 200

// ---------------------------------------------------------------------------
// (a) embedded API: deadlines and the memory cap

type C13Emb struct {
	Data     DataCase `json:"data"`
	Q        *h.Query `json:"q"`
	Mem      bool     `json:"mem"`
	Fault    string   `json:"fault"`           // past | mid | memcap
	AfterRow int      `json:"after_row"`       // mid: the callback of this row waits until the deadline has passed
	BudgetMS int      `json:"budget_ms"`       // mid: deadline = start + budget
	Keys     int      `json:"keys,omitempty"`  // memcap: number of keys (> 1000, the scan checks memory every 1000 rows)
	Group    bool     `json:"group,omitempty"` // memcap: grouped query instead of SELECT *
	Shape    string   `json:"shape,omitempty"` // memcap: "" | insub (big IN-subquery) | insub2 (big IN-subquery followed by a small one)
	// Companion: a second query on the same table (no deadline) is issued at the
	// same time, so that both are served by one coalesced scan
	Companion string `json:"companion,omitempty"` // "" | star | subset
}

func genC13Emb(t *rapid.T) C13Emb {
	cfg := c04Cfg()
	c := C13Emb{}
	switch rapid.IntRange(0, 9).Draw(t, "fault") {
	case 0:
		c.Fault = "memcap"
		c.Keys = rapid.IntRange(1001, 2600).Draw(t, "keys")
		c.Group = rapid.Bool().Draw(t, "group")
		c.Mem = rapid.Bool().Draw(t, "mem")
		c.Shape = rapid.SampledFrom([]string{"", "", "insub", "insub2", "insub2r"}).Draw(t, "shape")
		return c
	case 1, 2, 3, 4:
		c.Fault = "past"
	default:
		c.Fault = "mid"
		c.AfterRow = rapid.IntRange(0, 12).Draw(t, "after")
		c.BudgetMS = rapid.SampledFrom([]int{40, 80}).Draw(t, "budget")
	}
	c.Data = genData(t, cfg)
	s := &c.Data.Schema
	tbl := s.Tables[rapid.IntRange(0, len(s.Tables)-1).Draw(t, "qt")].Name
	if rapid.IntRange(0, 2).Draw(t, "plain") == 0 {
		c.Q = &h.Query{Fields: []h.QField{{Star: true}}, From: tbl}
	} else {
		c.Q = h.GenQuery(t, h.FullQ(cfg.MaxPeriods), s, tbl, "q")
	}
	c.Mem = rapid.IntRange(0, 3).Draw(t, "mem") > 0
	c.Companion = rapid.SampledFrom([]string{"", "", "star", "subset"}).Draw(t, "companion")
	return c
}

// incomplete reports whether got omits rows of truth (or differs from it).
func incomplete(q *h.Query, truth, got *h.Result) string {
	if got == nil {
		return "no result"
	}
	if q != nil && q.HasLimit() {
		if len(got.Rows) < len(truth.Rows) {
			return fmt.Sprintf("%d rows instead of %d", len(got.Rows), len(truth.Rows))
		}
		return ""
	}
	return h.DiffRows(truth.Rows, got.Rows, truth.Fields)
}

func runC13Emb(c *C13Emb) (removed bool, err error) {
	if c.Fault == "memcap" {
		return runC13MemCap(c)
	}
	now := maxTS(c.Data.Points)
	// a dataset split between file and memstore moves to the file on its own
	// (adaptive flush timer), so a disk-only query has no stable ground truth there
	if has(c.Data.splitLabels(), "disk+mem") {
		c.Mem = true
	}
	conf := h.DBConf{}
	if c.Companion != "" {
		conf.CoalesceMS = 25
	}
	err = c.Data.withDB("c13e", conf, func(db *h.DB) error {
		db.Z.VerifAdvanceClock(time.Unix(0, now))
		truth, terr := db.Query(c.Q.SQL(), h.QueryOpts{Mem: c.Mem})
		if terr != nil {
			if h.IsInconclusive(terr) {
				return terr
			}
			return nil // the query is refused without any fault: nothing to omit
		}
		var ctx context.Context
		var cancel context.CancelFunc
		var deadline time.Time
		o := h.QueryOpts{Mem: c.Mem}
		switch c.Fault {
		case "past":
			deadline = time.Now().Add(-time.Second)
		case "mid":
			deadline = time.Now().Add(time.Duration(c.BudgetMS) * time.Millisecond)
			o.OnRow = func(i int, r h.RefRow) {
				if i == c.AfterRow {
					for !time.Now().After(deadline) {
						time.Sleep(time.Millisecond)
					}
				}
			}
		}
		ctx, cancel = context.WithDeadline(context.Background(), deadline)
		defer cancel()
		o.Ctx = ctx
		companionDone := make(chan struct{})
		if c.Companion != "" {
			// same table, same stores, no deadline: shares the scan and keeps it going
			tbl := c.Q.From
			for sub := c.Q.FromSub; tbl == "" && sub != nil; sub = sub.FromSub {
				tbl = sub.From
			}
			csql := "SELECT * FROM " + tbl
			if c.Companion == "subset" {
				csql = "SELECT _points FROM " + tbl
			}
			go func() {
				defer close(companionDone)
				db.Query(csql, h.QueryOpts{Mem: c.Mem})
			}()
		} else {
			close(companionDone)
		}
		got, gerr := db.Query(c.Q.SQL(), o)
		<-companionDone
		if gerr != nil {
			if h.IsInconclusive(gerr) {
				return gerr
			}
			removed = got == nil || len(got.Rows) < len(truth.Rows)
			return nil // told
		}
		if d := incomplete(c.Q, truth, got); d != "" {
			removed = true
			return fmt.Errorf("%s (memstore=%v) with a deadline that %s returned err == nil but not the rows it returns without a deadline:\n%s", c.Q.SQL(), c.Mem, map[string]string{"past": "had already expired", "mid": fmt.Sprintf("expired during the callback of row %d", c.AfterRow)}[c.Fault], d)
		}
		return nil
	})
	return removed, err
}

// runC13MemCap: with MaxMemoryRatio so small that the process is always over
// its allowance, a scan of more than 1000 rows is stopped with ErrOutOfMemory.
func runC13MemCap(c *C13Emb) (bool, error) {
	sc := (&C18Stream{}).schema()
	// a second, small table on the same stream for the subquery shapes
	small := sc.Tables[0]
	small.Name = "tb"
	lit := h.StrV("k000001")
	small.Where = &h.Pred{Op: "=", Dim: "dk", Lit: &lit}
	sc.Tables = append(sc.Tables, small)
	dir := h.ScratchDir("c13m")
	defer removeAll(dir)
	sql := "SELECT * FROM ta"
	if c.Group {
		sql = "SELECT fa, fb FROM ta GROUP BY dk, period(1h)"
	}
	// the scan that exceeds the cap can also be the one of an IN-subquery; the
	// outer query then scans a small table only
	switch c.Shape {
	case "insub":
		sql = "SELECT * FROM tb WHERE dk IN (SELECT dk FROM ta)"
	case "insub2":
		sql = "SELECT * FROM tb WHERE dk IN (SELECT dk FROM ta) AND dk IN (SELECT dk FROM tb)"
	case "insub2r":
		sql = "SELECT * FROM tb WHERE dk IN (SELECT dk FROM tb) AND dk IN (SELECT dk FROM ta)"
	}
	// load and flush without a cap (under a cap that is always exceeded every
	// insert forces flushes, which is not what this case is about)
	db, err := h.OpenDB(dir, sc, h.DBConf{}, nil)
	if err != nil {
		return false, fmt.Errorf("%w: open: %v", errSetup, err)
	}
	st := &C18Stream{Keys: c.Keys, Rounds: 1, Periods: 1}
	for j := 0; j < c.Keys; j++ {
		if err := db.Insert("inbound", st.point(j)); err != nil {
			db.Close()
			return false, fmt.Errorf("%w: insert: %v", errSetup, err)
		}
	}
	if err := db.Quiesce(); err != nil {
		db.Close()
		return false, err
	}
	db.Flush()
	truth, terr := db.Query(sql, h.QueryOpts{Mem: c.Mem})
	db.Close()
	if terr != nil {
		if h.IsInconclusive(terr) {
			return false, terr
		}
		return false, fmt.Errorf("%w: uncapped query failed: %v", errSetup, terr)
	}
	// reopen with the cap: nothing is replayed because everything was flushed
	db, err = h.OpenDB(dir, sc, h.DBConf{MaxMemoryRatio: 1e-12}, nil)
	if err != nil {
		return false, fmt.Errorf("%w: reopen: %v", errSetup, err)
	}
	defer db.Close()
	db.Z.VerifAdvanceClock(time.Unix(0, h.PeriodEnd(h.BaseTS, c18Res))) // a restart resets the virtual clock
	got, gerr := db.Query(sql, h.QueryOpts{Mem: c.Mem})
	if gerr != nil {
		if h.IsInconclusive(gerr) {
			return false, gerr
		}
		return true, nil // told
	}
	if d := incomplete(nil, truth, got); d != "" {
		return true, fmt.Errorf("with a memory cap that is always exceeded, %s over %d keys (memstore=%v) returned err == nil but not the rows of the uncapped run:\n%s", sql, c.Keys, c.Mem, d)
	}
	return false, nil
}

func TestC13Emb(t *testing.T) {
	rec := h.NewRec(t, "TestC13Emb")
	rapid.Check(t, func(rt *rapid.T) {
		c := genC13Emb(rt)
		removed, err := runC13Emb(&c)
		labels := []string{"embedded-" + c.Fault}
		if c.Companion != "" {
			labels = append(labels, "embedded-with-coalesced-companion")
		}
		if removed {
			labels = append(labels, "fault-removed-rows")
		}
		if outcome(rec, rt, &c, removed, labels, err) {
			rt.Fatalf("%v", err)
		}
	})
}

// ---------------------------------------------------------------------------
// (b) cluster queries with unavailable / failing / slow partitions

type C13Cluster struct {
	C        C11Case  `json:"c"`
	Faults   []string `json:"faults"` // per partition: ok | slow | missing | err-first | err-after | block
	AfterRow int      `json:"after_row"`
	TimeoutM int      `json:"timeout_ms"` // cluster query timeout
	CtxMS    int      `json:"ctx_ms"`     // 0: no caller deadline
	Web      bool     `json:"web"`        // issue the query through the HTTP API of the leader
	MaxBytes int      `json:"max_bytes,omitempty"`
	Again    bool     `json:"again,omitempty"` // web: repeat the request (served from the cache)
}

var errPartition = errors.New("partition failed (injected)")

func genC13Cluster(t *rapid.T, webMode bool, excluded *int) C13Cluster {
	c := C13Cluster{C: genC11(t, excluded), Web: webMode}
	if c.C.N > 4 {
		c.C.N = 1 + c.C.N%4
	}
	c.C.Queries = c.C.Queries[:1]
	kinds := []string{"ok", "ok", "slow", "missing", "err-first", "err-after", "block", "err-once"}
	for i := 0; i < c.C.N; i++ {
		c.Faults = append(c.Faults, rapid.SampledFrom(kinds).Draw(t, fmt.Sprintf("fault%d", i)))
	}
	c.AfterRow = rapid.IntRange(1, 6).Draw(t, "after")
	c.TimeoutM = rapid.SampledFrom([]int{150, 300}).Draw(t, "timeout")
	if rapid.IntRange(0, 2).Draw(t, "ctx") == 0 {
		c.CtxMS = rapid.SampledFrom([]int{200, 400}).Draw(t, "ctxms")
	}
	if webMode {
		if rapid.Bool().Draw(t, "cap") {
			c.MaxBytes = rapid.IntRange(1, 1500).Draw(t, "maxbytes")
		}
		c.Again = rapid.Bool().Draw(t, "again")
		if c.MaxBytes > 0 && rapid.Bool().Draw(t, "bigresult") {
			// a result of a hundred rows or more and a limit of a few kB: the
			// handler's running estimate stops the scan long before the compressed
			// body of what was collected so far would exceed the limit
			cfg := c11Cfg()
			extra := rapid.IntRange(60, 160).Draw(t, "extra")
			for i := 0; i < extra; i++ {
				c.C.Data.Points = append(c.C.Data.Points, h.GenPoint(t, cfg, &c.C.Data.Schema, cfg.MaxPeriods, fmt.Sprintf("x%d", i)))
			}
			c.MaxBytes = rapid.IntRange(800, 5000).Draw(t, "maxbytes2")
		}
		if rapid.IntRange(0, 3).Draw(t, "sortedbig") == 0 {
			// dedicated shape: many rows, a sort between scan and consumer, a limit
			// that the estimate reaches after a few dozen rows
			cfg := c11Cfg()
			if len(c.C.Data.Points) < 60 {
				extra := rapid.IntRange(60, 160).Draw(t, "extra2")
				for i := 0; i < extra; i++ {
					c.C.Data.Points = append(c.C.Data.Points, h.GenPoint(t, cfg, &c.C.Data.Schema, cfg.MaxPeriods, fmt.Sprintf("y%d", i)))
				}
			}
			c.MaxBytes = rapid.IntRange(800, 5000).Draw(t, "maxbytes3")
			key := rapid.SampledFrom(append([]string{"_time", "_points"}, tableFieldNames(&c.C.Data.Schema, "ta")...)).Draw(t, "sortkey")
			c.C.Queries[0] = &h.Query{Fields: []h.QField{{Star: true}}, From: "ta", OrderBy: []h.OrderKey{{Field: key, Desc: rapid.Bool().Draw(t, "sortdesc")}}}
			if rapid.Bool().Draw(t, "sortlimit") {
				c.C.Queries[0].Limit = rapid.IntRange(50, 200).Draw(t, "sortlimitn")
			}
		}
		// the size limit is raised by the consumer of the rows, above every
		// operator of the plan: put sorting / limiting operators in between
		q := c.C.Queries[0]
		if len(q.OrderBy) == 0 && rapid.Bool().Draw(t, "weborder") {
			cands := []string{"_time"}
			for _, f := range q.Fields {
				if !f.Star && f.Name != "" {
					cands = append(cands, f.Name)
				}
			}
			q.OrderBy = []h.OrderKey{{Field: rapid.SampledFrom(cands).Draw(t, "weborderf"), Desc: rapid.Bool().Draw(t, "weborderd")}}
		}
	}
	return c
}

// faultyHandler wraps a partition's handler with the injected behaviour.
func faultyHandler(kind string, afterRow int, hold time.Duration, inner planner.QueryClusterFN) planner.QueryClusterFN {
	calls := int64(0)
	return func(ctx context.Context, sqlString string, isSubQuery bool, subQueryResults [][]interface{}, unflat bool, onFields core.OnFields, onRow core.OnRow, onFlatRow core.OnFlatRow) (interface{}, error) {
		switch kind {
		case "slow":
			time.Sleep(15 * time.Millisecond)
		case "err-first":
			return nil, errPartition
		case "err-once":
			// fails the first cluster query it is asked to answer (for a query with
			// an IN-subquery that is the subquery), answers the following ones
			if atomic.AddInt64(&calls, 1) == 1 {
				return nil, errPartition
			}
		case "block":
			select {
			case <-ctx.Done():
			case <-time.After(hold):
			}
			return nil, core.ErrDeadlineExceeded
		case "err-after":
			n := int64(0)
			over := func() bool { return atomic.AddInt64(&n, 1) > int64(afterRow) }
			wrapRow := onRow
			wrapFlat := onFlatRow
			if onRow != nil {
				wrapRow = func(key bytemap.ByteMap, vals core.Vals) (bool, error) {
					if over() {
						return false, errPartition
					}
					return onRow(key, vals)
				}
			}
			if onFlatRow != nil {
				wrapFlat = func(row *core.FlatRow) (bool, error) {
					if over() {
						return false, errPartition
					}
					return onFlatRow(row)
				}
			}
			_, err := inner(ctx, sqlString, isSubQuery, subQueryResults, unflat, onFields, wrapRow, wrapFlat)
			if err == nil {
				err = errPartition
			}
			return nil, err
		}
		return inner(ctx, sqlString, isSubQuery, subQueryResults, unflat, onFields, onRow, onFlatRow)
	}
}

// clusterFixture holds the partition databases and the leader of one case.
type clusterFixture struct {
	parts  []*h.DB
	leader *h.PlanLeader
	dirs   []string
}

func (f *clusterFixture) close() {
	if f.leader != nil {
		f.leader.Close()
	}
	for _, p := range f.parts {
		p.Close()
	}
	for _, d := range f.dirs {
		removeAll(d)
	}
}

// openClusterFixture loads the case's rows into N partition databases and
// opens a passthrough leader; handlers are registered by the caller.
func openClusterFixture(c *C11Case, now int64, timeout time.Duration) (*clusterFixture, error) {
	return openClusterFixtureWith(c, now, timeout, true)
}

// openClusterFixtureWith: flushed decides whether the partitions' data is on
// disk or stays in their memstores.
func openClusterFixtureWith(c *C11Case, now int64, timeout time.Duration, flushed bool) (*clusterFixture, error) {
	f := &clusterFixture{}
	byPart := make([][]h.Point, c.N)
	for _, p := range c.Data.Points {
		i := c.partitionOf(p)
		byPart[i] = append(byPart[i], p)
	}
	for i := 0; i < c.N; i++ {
		dir := h.ScratchDir("c13p")
		f.dirs = append(f.dirs, dir)
		db, err := h.OpenDB(dir, &c.Data.Schema, h.DBConf{}, nil)
		if err != nil {
			f.close()
			return nil, fmt.Errorf("%w: open partition: %v", errSetup, err)
		}
		f.parts = append(f.parts, db)
		d := DataCase{Schema: c.Data.Schema, Points: byPart[i]}
		if flushed {
			d.FlushAt = []int{len(byPart[i])}
		}
		if err := d.load(db); err != nil {
			f.close()
			return nil, err
		}
		db.Z.VerifAdvanceClock(time.Unix(0, now))
	}
	ldir := h.ScratchDir("c13l")
	f.dirs = append(f.dirs, ldir)
	leader, err := h.OpenPlanLeaderT(ldir, &c.Data.Schema, c.N, timeout)
	if err != nil {
		f.close()
		return nil, fmt.Errorf("%w: open leader: %v", errSetup, err)
	}
	f.leader = leader
	leader.Z.VerifAdvanceClock(time.Unix(0, now))
	return f, nil
}

func isFaulty(kind string) bool { return kind != "ok" && kind != "slow" }

// told reports whether the statistics of a cluster query announce missing data.
func statsTell(res *h.Result) bool {
	return res != nil && res.Stats != nil && len(res.Stats.MissingPartitions) > 0 && res.Stats.NumSuccessfulPartitions < res.Stats.NumPartitions
}

func runC13Cluster(c *C13Cluster) (removed bool, labels []string, err error) {
	now := maxTS(c.C.Data.Points)
	q := c.C.Queries[0]
	timeout := time.Duration(c.TimeoutM) * time.Millisecond
	// ground truth: the same cluster without faults
	ft, err := openClusterFixture(&c.C, now, h.QuiesceTimeout)
	if err != nil {
		return false, nil, err
	}
	for i, p := range ft.parts {
		ft.leader.Serve(i, h.FollowerHandler(p.Z))
	}
	var truth *h.Result
	var terr error
	var truthWeb *webAnswer
	if c.Web {
		srv, cleanup, err := serveWeb(ft.leader, 0, 20*time.Second)
		if err != nil {
			ft.close()
			return false, nil, err
		}
		truthWeb, err = webGet(srv.URL, "immediate", q.SQL())
		cleanup()
		if err != nil {
			ft.close()
			return false, nil, err
		}
	} else {
		truth, terr = ft.leader.Query(q.SQL(), h.QueryOpts{Mem: false})
	}
	ft.close()
	if terr != nil {
		if h.IsInconclusive(terr) {
			return false, nil, terr
		}
		return false, []string{"query-refused-without-fault"}, nil
	}
	if !c.Web && truth.Stats != nil && truth.Stats.NumSuccessfulPartitions != c.C.N {
		return false, nil, fmt.Errorf("%w: fault-free run not complete: %+v", h.ErrInconclusive, truth.Stats)
	}
	if c.Web && truthWeb.Status != 200 {
		return false, []string{"query-refused-without-fault"}, nil
	}

	f, err := openClusterFixture(&c.C, now, timeout)
	if err != nil {
		return false, nil, err
	}
	defer f.close()
	anyFault := false
	for i, p := range f.parts {
		kind := c.Faults[i]
		if isFaulty(kind) {
			anyFault = true
		}
		if kind == "missing" {
			continue
		}
		f.leader.Serve(i, faultyHandler(kind, c.AfterRow, 4*timeout, h.FollowerHandler(p.Z)))
	}
	if anyFault {
		labels = append(labels, "faulty-partitions")
	}
	if c.Web {
		budget := 20 * time.Second
		if c.CtxMS > 0 {
			budget = time.Duration(c.CtxMS) * time.Millisecond
		}
		srv, cleanup, err := serveWeb(f.leader, c.MaxBytes, budget)
		if err != nil {
			return false, labels, err
		}
		defer cleanup()
		n := 1
		if c.Again {
			n = 3
		}
		for k := 0; k < n; k++ {
			endpoint := "immediate"
			var ans *webAnswer
			if k == 2 && truthWeb != nil {
				// the permalink of the first answer, if there was one
				endpoint = "cached"
			}
			ans, err = webGetVia(srv.URL, endpoint, q.SQL(), k)
			if err != nil {
				return removed, labels, err
			}
			if ans == nil {
				continue
			}
			labels = append(labels, fmt.Sprintf("http-%d", ans.Status))
			if ans.Status != 200 {
				removed = removed || anyFault || c.MaxBytes > 0
				continue // told
			}
			d := diffWeb(q, truthWeb, ans)
			if d == "" {
				continue
			}
			removed = true
			if ans.told() {
				labels = append(labels, "told-by-stats")
				continue
			}
			return removed, labels, fmt.Errorf("HTTP /%s (request %d of the same SQL) answered 200 with an incomplete result and statistics that do not name missing partitions\nSQL: %s\npartition faults: %v, MaxResponseBytes=%d, QueryTimeout=%v\nstats: %s\n%s", endpoint, k+1, q.SQL(), c.Faults, c.MaxBytes, budget, ans.Stats, d)
		}
		return removed, labels, nil
	}
	o := h.QueryOpts{Mem: false, Timeout: 30 * time.Second}
	if c.CtxMS > 0 {
		ctx, cancel := context.WithTimeout(context.Background(), time.Duration(c.CtxMS)*time.Millisecond)
		defer cancel()
		o.Ctx = ctx
	}
	got, gerr := f.leader.Query(q.SQL(), o)
	if gerr != nil {
		if h.IsInconclusive(gerr) {
			return false, labels, gerr
		}
		labels = append(labels, "told-by-error")
		return anyFault, labels, nil
	}
	// every partition that had no handler, failed or timed out must be named
	if got.Stats != nil {
		listed := map[int]bool{}
		for _, p := range got.Stats.MissingPartitions {
			listed[p] = true
		}
		for i, kind := range c.Faults {
			if kind == "err-once" && (q.WhereIn != nil || q.FromSub != nil) {
				// the failure hit a subquery's own cluster query; what matters is
				// whether the final rows are complete (checked below)
				continue
			}
			if isFaulty(kind) && !listed[i] {
				// tolerated only when the leader stopped early because a LIMIT was satisfied
				if q.HasLimit() && incomplete(q, truth, got) == "" {
					continue
				}
				return true, labels, fmt.Errorf("cluster query returned err == nil and its statistics do not name partition %d (fault: %s) as missing\nSQL: %s\nfaults: %v\nstats: %+v", i, kind, q.SQL(), c.Faults, *got.Stats)
			}
		}
	}
	if d := incomplete(q, truth, got); d != "" {
		removed = true
		if statsTell(got) {
			labels = append(labels, "told-by-stats")
			return removed, labels, nil
		}
		st := "<nil>"
		if got.Stats != nil {
			st = fmt.Sprintf("%+v", *got.Stats)
		}
		return removed, labels, fmt.Errorf("cluster query returned err == nil, statistics that announce nothing missing, and an incomplete result\nSQL: %s\nfaults: %v (cluster timeout %v, caller deadline %dms)\nstats: %s\n%s", q.SQL(), c.Faults, timeout, c.CtxMS, st, d)
	}
	return removed, labels, nil
}

func TestC13Cluster(t *testing.T) {
	rec := h.NewRec(t, "TestC13Cluster")
	excluded := 0
	defer func() { rec.Excluded(excluded) }()
	rapid.Check(t, func(rt *rapid.T) {
		c := genC13Cluster(rt, false, &excluded)
		removed, labels, err := runC13Cluster(&c)
		if outcome(rec, rt, &c, removed, append(labels, "cluster"), err) {
			rt.Fatalf("%v", err)
		}
	})
}

func TestC13Web(t *testing.T) {
	rec := h.NewRec(t, "TestC13Web")
	excluded := 0
	defer func() { rec.Excluded(excluded) }()
	rapid.Check(t, func(rt *rapid.T) {
		c := genC13Cluster(rt, true, &excluded)
		removed, labels, err := runC13Cluster(&c)
		if outcome(rec, rt, &c, removed, append(labels, "web"), err) {
			rt.Fatalf("%v", err)
		}
	})
}

// ---------------------------------------------------------------------------
// HTTP plumbing

type webAnswer struct {
	Status int
	Body   string
	Fields []string
	Rows   []string // canonical "ts|key|vals"
	Stats  string
	Miss   int
	Succ   int
	Parts  int
	Link   string
}

func (a *webAnswer) told() bool { return a.Miss > 0 && a.Succ < a.Parts }

// serveWeb mounts zenodb's web handlers for the leader on a loopback server.
func serveWeb(leader *h.PlanLeader, maxBytes int, queryTimeout time.Duration) (*httptest.Server, func(), error) {
	router := mux.NewRouter()
	cacheDir := h.ScratchDir("c13cache")
	opts := &web.Opts{HashKey: c19HashKey, BlockKey: c19BlockKey, CacheDir: cacheDir, Password: c19Password, QueryTimeout: queryTimeout, MaxResponseBytes: maxBytes}
	stop, err := web.Configure(leader.Z, router, opts)
	if err != nil {
		return nil, nil, fmt.Errorf("%w: web.Configure: %v", errSetup, err)
	}
	srv := httptest.NewServer(router)
	return srv, func() {
		srv.Close()
		if stop != nil {
			stop()
		}
		removeAll(cacheDir)
	}, nil
}

var c13Links = map[string]string{}

func webGetVia(base, endpoint, sql string, k int) (*webAnswer, error) {
	if endpoint == "cached" {
		link := c13Links[base]
		if link == "" {
			return nil, nil
		}
		return webGet(base, "cached/"+link, "")
	}
	return webGet(base, endpoint, sql)
}

func webGet(base, endpoint, sql string) (*webAnswer, error) {
	u := base + "/" + endpoint
	if sql != "" {
		u += "?" + url.QueryEscape(sql)
	}
	req, _ := http.NewRequest("GET", u, nil)
	req.Header.Set("X-Zeno-Auth-Token", c19Password)
	req.Header.Set("Accept-Encoding", "gzip")
	client := &http.Client{Timeout: 60 * time.Second}
	resp, err := client.Do(req)
	if err != nil {
		return nil, fmt.Errorf("%w: http: %v", h.ErrInconclusive, err)
	}
	defer resp.Body.Close()
	var rd io.Reader = resp.Body
	if resp.Header.Get("Content-Encoding") == "gzip" {
		if gz, err := gzip.NewReader(resp.Body); err == nil {
			rd = gz
		}
	}
	body, _ := io.ReadAll(rd)
	a := &webAnswer{Status: resp.StatusCode, Body: string(body)}
	if resp.StatusCode == 202 {
		// still pending: poll the permalink
		link := strings.TrimPrefix(strings.TrimSpace(string(body)), "/cached/")
		for i := 0; i < 200; i++ {
			time.Sleep(50 * time.Millisecond)
			b, err := webGet(base, "cached/"+link, "")
			if err != nil || b.Status != 202 {
				return b, err
			}
		}
		return nil, fmt.Errorf("%w: query still pending", h.ErrInconclusive)
	}
	if resp.StatusCode != 200 {
		return a, nil
	}
	var qr struct {
		Permalink string
		Fields    []string
		Rows      []struct {
			TS   int64
			Key  map[string]interface{}
			Vals []float64
		}
		Stats *struct {
			NumPartitions           int
			NumSuccessfulPartitions int
			MissingPartitions       []int
		}
	}
	if err := json.Unmarshal(body, &qr); err != nil {
		return nil, fmt.Errorf("%w: undecodable 200 body: %v", errSetup, err)
	}
	a.Fields = qr.Fields
	a.Link = qr.Permalink
	if qr.Permalink != "" {
		c13Links[base] = qr.Permalink
	}
	for _, r := range qr.Rows {
		kb, _ := json.Marshal(r.Key)
		vals := make([]string, len(r.Vals))
		for i, v := range r.Vals {
			vals[i] = fmt.Sprintf("%.9g", v)
		}
		a.Rows = append(a.Rows, fmt.Sprintf("%d|%s|%s", r.TS, kb, strings.Join(vals, ",")))
	}
	sort.Strings(a.Rows)
	if qr.Stats != nil {
		a.Miss, a.Succ, a.Parts = len(qr.Stats.MissingPartitions), qr.Stats.NumSuccessfulPartitions, qr.Stats.NumPartitions
		a.Stats = fmt.Sprintf("%+v", *qr.Stats)
	}
	return a, nil
}

// diffWeb compares two HTTP answers of the same query.
func diffWeb(q *h.Query, truth, got *webAnswer) string {
	if q.HasLimit() {
		if len(got.Rows) < len(truth.Rows) {
			return fmt.Sprintf("%d rows instead of %d", len(got.Rows), len(truth.Rows))
		}
		return ""
	}
	if strings.Join(truth.Fields, ",") != strings.Join(got.Fields, ",") {
		return fmt.Sprintf("fields %v instead of %v", got.Fields, truth.Fields)
	}
	if len(truth.Rows) != len(got.Rows) {
		return fmt.Sprintf("%d rows instead of %d\nwant %v\ngot  %v", len(got.Rows), len(truth.Rows), truth.Rows, got.Rows)
	}
	for i := range truth.Rows {
		if truth.Rows[i] != got.Rows[i] {
			return fmt.Sprintf("row %d: %s instead of %s", i, got.Rows[i], truth.Rows[i])
		}
	}
	return ""
}

func init() {
	register("TestC13Emb", func(raw json.RawMessage) error {
		var c C13Emb
		if err := json.Unmarshal(raw, &c); err != nil {
			return err
		}
		_, err := runC13Emb(&c)
		return err
	})
	for _, name := range []string{"TestC13Cluster", "TestC13Web"} {
		register(name, func(raw json.RawMessage) error {
			var c C13Cluster
			if err := json.Unmarshal(raw, &c); err != nil {
				return err
			}
			_, _, err := runC13Cluster(&c)
			return err
		})
	}
}
