package checks

import (
	"fmt"

	"verifharness/h"

	"pgregory.net/rapid"
)

// DataCase is a schema, a point sequence and the positions (number of points
// inserted so far) at which all tables are force-flushed, which decides what
// lives in the file store and what in the memstore.
type DataCase struct {
	Schema  h.Schema  `json:"schema"`
	Points  []h.Point `json:"points"`
	FlushAt []int     `json:"flush_at,omitempty"`
}

// genData draws a single-stream dataset with a storage split.
func genData(t *rapid.T, cfg *h.GenCfg) DataCase {
	d := DataCase{Schema: h.GenSchema(t, cfg)}
	n := rapid.IntRange(0, cfg.MaxPoints).Draw(t, "npoints")
	for i := 0; i < n; i++ {
		d.Points = append(d.Points, h.GenPoint(t, cfg, &d.Schema, cfg.MaxPeriods, fmt.Sprintf("p%d", i)))
	}
	switch rapid.IntRange(0, 3).Draw(t, "split") {
	case 0: // all in memory
	case 1: // all on disk
		d.FlushAt = []int{n}
	default:
		k := rapid.IntRange(1, 3).Draw(t, "nflush")
		for i := 0; i < k; i++ {
			d.FlushAt = append(d.FlushAt, rapid.IntRange(0, n).Draw(t, fmt.Sprintf("flush%d", i)))
		}
	}
	return d
}

// load inserts the points with the storage split and waits for ingestion.
func (d *DataCase) load(db *h.DB) error {
	flushAt := map[int]bool{}
	for _, f := range d.FlushAt {
		flushAt[f] = true
	}
	for i, p := range d.Points {
		if flushAt[i] {
			if err := db.Quiesce(); err != nil {
				return err
			}
			db.Flush()
		}
		if err := db.Insert("inbound", p); err != nil {
			return fmt.Errorf("insert: %v", err)
		}
	}
	if err := db.Quiesce(); err != nil {
		return err
	}
	if flushAt[len(d.Points)] {
		db.Flush()
	}
	return nil
}

// withDB opens a scratch database for the case's schema, loads the data and
// runs fn.
func (d *DataCase) withDB(prefix string, conf h.DBConf, fn func(db *h.DB) error) error {
	dir := h.ScratchDir(prefix)
	defer removeAll(dir)
	db, err := h.OpenDB(dir, &d.Schema, conf, nil)
	if err != nil {
		return fmt.Errorf("%w: open: %v", errSetup, err)
	}
	defer db.Close()
	if err := d.load(db); err != nil {
		return err
	}
	return fn(db)
}

// splitLabels describes where the data lives.
func (d *DataCase) splitLabels() []string {
	n := len(d.Points)
	if n == 0 {
		return []string{"no-points"}
	}
	if len(d.FlushAt) == 0 {
		return []string{"mem-only"}
	}
	max := 0
	for _, f := range d.FlushAt {
		if f > max {
			max = f
		}
	}
	if max >= n {
		return []string{"disk-only"}
	}
	if max == 0 {
		return []string{"mem-only"}
	}
	return []string{"disk+mem"}
}

// acceptedCount returns how many points a table accepts.
func (d *DataCase) expected(arrayRule bool) map[string][]h.RefRow {
	return expectedRows(&d.Schema, d.Points, arrayRule)
}

// tableFieldNames lists the names of a table's declared fields.
func tableFieldNames(s *h.Schema, table string) []string {
	sem := h.SemFor(s, table)
	var out []string
	for _, f := range sem.Fields {
		out = append(out, f.Name)
	}
	return out
}
