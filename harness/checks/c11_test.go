package checks

import (
	"encoding/json"
	"fmt"
	"hash/fnv"
	"os"
	"sort"
	"strings"
	"testing"
	"time"

	"verifharness/h"

	"pgregory.net/rapid"
)

// C11Case: a dataset, a split of its rows over N partitions that respects the
// table's partition keys, and queries planned once for the cluster and once
// locally.
type C11Case struct {
	Data    DataCase   `json:"data"`
	N       int        `json:"n"`
	Salt    int        `json:"salt"`
	Assign  []int      `json:"assign,omitempty"`   // explicit assignment per distinct partition-key tuple (mod N)
	AllDims bool       `json:"all_dims,omitempty"` // probe only: split a key-less table by all dims, like the real leader
	Queries []*h.Query `json:"queries"`
}

func c11Cfg() *h.GenCfg {
	maxPts := 30
	if h.Thorough() {
		maxPts = 70
	}
	return &h.GenCfg{MaxPoints: maxPts, MaxPeriods: 6, MaxTables: 1, MaxFields: 4, AllowWhere: true, AllowPct: true, AllowIf: true}
}

// stripTextualKeywords keeps generated queries outside the listed finding
// "textual GROUP BY/HAVING/ORDER BY/LIMIT search in planClusterNonPushdown":
// IN-subqueries carry no GROUP BY/HAVING/ORDER BY/LIMIT text.
func stripTextualKeywords(q *h.Query, excluded *int) {
	if q.WhereIn != nil {
		sub := q.WhereIn.Sub
		if len(sub.GroupBy) > 0 || sub.Having != nil || len(sub.OrderBy) > 0 || sub.Limit > 0 || sub.PeriodNS > 0 {
			*excluded++
		}
		sub.GroupBy, sub.GroupStar, sub.GroupNone, sub.Having, sub.OrderBy, sub.Limit, sub.Offset, sub.PeriodNS, sub.StrideNS, sub.Crosstab = nil, false, false, nil, nil, 0, 0, 0, 0, nil
	}
	if q.FromSub != nil {
		stripTextualKeywords(q.FromSub, excluded)
	}
	// listed finding pushdown-offset-twice: no OFFSET
	if q.Offset > 0 {
		*excluded++
		q.Offset = 0
	}
	// listed finding bytemap-prefix-match: GROUP BY _ together with CROSSTAB
	if q.GroupNone && len(q.Crosstab) > 0 {
		*excluded++
		q.Crosstab = nil
	}
	// listed finding shift-twice-nonpushdown: no SHIFT fields;
	// listed finding percentile-of-field-nonpushdown: no PERCENTILE(field, p)
	var kept []h.QField
	for _, f := range q.Fields {
		if f.Ex != nil && (f.Ex.Op == "SHIFT" || f.Ex.Op == "PCTREF") {
			*excluded++
			continue
		}
		kept = append(kept, f)
	}
	q.Fields = kept
	// listed finding len-declared-one-to-one: GROUP BY LEN(dim) is treated as
	// confining groups to partitions (the dependency goexpr walks LEN's
	// argument in WalkOneToOneParams although LEN is not one-to-one)
	var keptGE []h.GroupEx
	for _, ge := range q.GroupEx {
		if strings.HasPrefix(ge.SQL, "LEN(") {
			*excluded++
			continue
		}
		keptGE = append(keptGE, ge)
	}
	q.GroupEx = keptGE
	// listed finding crosstab-star-cluster-panic: CROSSTAB without explicit dims
	if len(q.Crosstab) > 0 && len(q.GroupBy) == 0 {
		*excluded++
		q.Crosstab = nil
	}
}

func genC11(t *rapid.T, excluded *int) C11Case {
	cfg := c11Cfg()
	c := C11Case{Data: genData(t, cfg)}
	tbl := &c.Data.Schema.Tables[0]
	// partition keys: none, or a subset of the dims the table stores
	dims := keyDims(&c.Data.Schema)
	if rapid.IntRange(0, 3).Draw(t, "partby") > 0 && len(dims) > 0 {
		k := rapid.IntRange(1, len(dims)).Draw(t, "npart")
		perm := rapid.Permutation(dims).Draw(t, "partperm")
		tbl.PartBy = append([]string(nil), perm[:k]...)
		sort.Strings(tbl.PartBy)
	}
	c.N = rapid.IntRange(1, 6).Draw(t, "n")
	c.Salt = rapid.IntRange(0, 1000).Draw(t, "salt")
	if rapid.Bool().Draw(t, "explicit") {
		for i := 0; i < 12; i++ {
			c.Assign = append(c.Assign, rapid.IntRange(0, 5).Draw(t, fmt.Sprintf("assign%d", i)))
		}
	}
	nq := rapid.IntRange(1, 4).Draw(t, "nq")
	for i := 0; i < nq; i++ {
		q := h.GenQuery(t, h.FullQ(cfg.MaxPeriods), &c.Data.Schema, "ta", fmt.Sprintf("q%d", i))
		biasClusterQuery(t, q, &c.Data.Schema, tbl.PartBy, fmt.Sprintf("bias%d", i))
		stripTextualKeywords(q, excluded)
		c.Queries = append(c.Queries, q)
	}
	return c
}

// biasClusterQuery steers some queries towards the shapes on which the
// pushdown decision and the leader-side pipeline hinge: (a) a GROUP BY that
// mentions every partition key, some of them only through a many-to-one
// expression (such a query must NOT be pushed down whole); (b) HAVING + ORDER BY
// + small LIMIT together on a grouped query (the leader must filter before it
// slices).
func biasClusterQuery(t *rapid.T, q *h.Query, s *h.Schema, partBy []string, label string) {
	if q.FromSub != nil {
		return
	}
	switch rapid.IntRange(0, 5).Draw(t, label) {
	case 0:
		if len(partBy) == 0 || len(q.Crosstab) > 0 {
			return
		}
		var plain []string
		var exprs []h.GroupEx
		wrapped := false
		for _, k := range partBy {
			if (k == "da" || k == "dc") && (!wrapped || rapid.Bool().Draw(t, label+".wrap."+k)) {
				wrapped = true
				switch rapid.IntRange(0, 1).Draw(t, label+".fn."+k) {
				case 0:
					exprs = append(exprs, h.GroupEx{Name: "g" + k, SQL: "SUBSTR(" + k + ", 0, 1)"})
				default:
					// second character: collapses the single-character values of the
					// generated domains (x, y -> "", p, q -> "") into one group
					exprs = append(exprs, h.GroupEx{Name: "g" + k, SQL: "SUBSTR(" + k + ", 1, 1)"})
				}
			} else {
				plain = append(plain, k)
			}
		}
		if !wrapped {
			return
		}
		q.GroupBy, q.GroupEx, q.GroupStar, q.GroupNone = plain, exprs, false, false
		// ORDER BY keys that are no longer group dims would only produce errors
		q.OrderBy = nil
	case 1, 2:
		if len(q.GroupBy) == 0 && len(q.GroupEx) == 0 && !q.GroupNone {
			return
		}
		sem := h.SemFor(s, "ta")
		opNames := []string{"_points"}
		for _, f := range sem.Fields {
			if f.Ex.Op != "BOUNDEDTOP" && f.Ex.Op != "PCT" {
				opNames = append(opNames, f.Name)
			}
		}
		if q.Having == nil {
			q.Having = h.GenHaving(t, h.FullQ(4), opNames, 0, label+".h")
		}
		if len(q.OrderBy) == 0 {
			cands := []string{"_time"}
			for _, f := range q.Fields {
				if !f.Star && f.Name != "" {
					cands = append(cands, f.Name)
				}
			}
			cands = append(cands, q.GroupBy...)
			q.OrderBy = []h.OrderKey{{Field: rapid.SampledFrom(cands).Draw(t, label+".ok"), Desc: rapid.Bool().Draw(t, label+".od")}}
		}
		q.Limit = rapid.IntRange(1, 3).Draw(t, label+".limit")
		q.Offset = 0
	}
}

// partitionOf assigns a point to a partition as a function of its
// partition-key tuple only (all dims when the table has no partition keys).
func (c *C11Case) partitionOf(p h.Point) int {
	tbl := c.Data.Schema.Tables[0]
	var parts []string
	if len(tbl.PartBy) > 0 {
		for _, k := range tbl.PartBy {
			if v, ok := p.Dim(k); ok && v.K != "nil" {
				parts = append(parts, k+"="+v.Canon())
			}
		}
	} else if tbl.GroupAll || c.AllDims {
		ds := append([]h.KV(nil), p.Dims...)
		sort.Slice(ds, func(i, j int) bool { return ds[i].N < ds[j].N })
		for _, kv := range ds {
			parts = append(parts, kv.N+"="+kv.V.Canon())
		}
	} else {
		// no partition keys and a table that groups by named dims: rows of one
		// table key on two partitions are the listed finding
		// pushdown-splits-table-key; the generated split keeps a key together
		for _, k := range tbl.GroupBy {
			if v, ok := p.Dim(k); ok && v.K != "nil" {
				parts = append(parts, k+"="+v.Canon())
			}
		}
	}
	f := fnv.New32a()
	f.Write([]byte(fmt.Sprintf("%d|%s", c.Salt, strings.Join(parts, ";"))))
	hv := int(f.Sum32() & 0x7fffffff)
	if len(c.Assign) > 0 {
		return c.Assign[hv%len(c.Assign)] % c.N
	}
	return hv % c.N
}

func runC11(c *C11Case) error {
	now := maxTS(c.Data.Points)
	var local []qOutcome
	if err := withClock(&c.Data, "c11u", c.Data.Points, now, func(db *h.DB) error {
		var err error
		local, err = runQueries(db, c.Queries, true)
		return err
	}); err != nil {
		return err
	}
	// one standalone database per partition, each holding its share of the rows
	byPart := make([][]h.Point, c.N)
	for _, p := range c.Data.Points {
		i := c.partitionOf(p)
		byPart[i] = append(byPart[i], p)
	}
	var parts []*h.DB
	defer func() {
		for _, p := range parts {
			p.Close()
			removeAll(p.Dir)
		}
	}()
	for i := 0; i < c.N; i++ {
		dir := h.ScratchDir("c11p")
		db, err := h.OpenDB(dir, &c.Data.Schema, h.DBConf{}, nil)
		if err != nil {
			return fmt.Errorf("%w: open partition: %v", errSetup, err)
		}
		parts = append(parts, db)
		d := DataCase{Schema: c.Data.Schema, Points: byPart[i]}
		if len(c.Data.FlushAt) > 0 {
			d.FlushAt = []int{len(byPart[i]) / 2}
		}
		if err := d.load(db); err != nil {
			return err
		}
		db.Z.VerifAdvanceClock(time.Unix(0, now))
	}
	ldir := h.ScratchDir("c11l")
	defer removeAll(ldir)
	leader, err := h.OpenPlanLeader(ldir, &c.Data.Schema, c.N)
	if err != nil {
		return fmt.Errorf("%w: open leader: %v", errSetup, err)
	}
	defer leader.Close()
	leader.Z.VerifAdvanceClock(time.Unix(0, now))
	for i, p := range parts {
		leader.Serve(i, h.FollowerHandler(p.Z))
	}
	for i, q := range c.Queries {
		res, err := leader.Query(q.SQL(), h.QueryOpts{Mem: true})
		if err != nil && h.IsInconclusive(err) {
			return err
		}
		if err != nil && strings.Contains(err.Error(), "missing partitions") {
			// a subquery's cluster query found a partition without a registered
			// harness handler: fixture matter
			return fmt.Errorf("%w: %v", h.ErrInconclusive, err)
		}
		if err == nil && res.Stats != nil && (res.Stats.NumSuccessfulPartitions != c.N || len(res.Stats.MissingPartitions) > 0) {
			// the harness's own handlers failed to answer: not a verdict on the plan
			return fmt.Errorf("%w: partitions not all successful: %+v", h.ErrInconclusive, res.Stats)
		}
		if d := sameOutcome(q, local[i], qOutcome{res, err}); d != "" {
			return fmt.Errorf("cluster plan over %d partitions (partition keys %v) disagrees with the local plan over the union for\n%s\n%s", c.N, c.Data.Schema.Tables[0].PartBy, q.SQL(), d)
		}
	}
	return nil
}

func classifyC11(c *C11Case) (bool, []string) {
	labels := []string{fmt.Sprintf("n-%d", c.N)}
	if len(c.Data.Schema.Tables[0].PartBy) > 0 {
		labels = append(labels, "partitioned-by-keys")
	}
	nt := false
	for _, q := range c.Queries {
		if q.Regroups() || q.Where != nil || q.WhereIn != nil || len(q.OrderBy) > 0 {
			nt = true
		}
		if q.FromSub != nil {
			labels = append(labels, "from-subquery")
		}
		if q.WhereIn != nil {
			labels = append(labels, "in-subquery")
		}
		if len(q.Crosstab) > 0 {
			labels = append(labels, "crosstab")
		}
		if q.Having != nil {
			labels = append(labels, "having")
		}
	}
	used := map[int]bool{}
	for _, p := range c.Data.Points {
		used[c.partitionOf(p)] = true
	}
	if len(used) >= 2 {
		labels = append(labels, "data-in-2+-partitions")
	}
	return nt && len(used) >= 2, labels
}

func TestC11(t *testing.T) {
	rec := h.NewRec(t, "TestC11")
	excluded := 0
	defer func() { rec.Excluded(excluded) }()
	probesC11(rec)
	rapid.Check(t, func(rt *rapid.T) {
		c := genC11(rt, &excluded)
		nt, labels := classifyC11(&c)
		err := runC11(&c)
		rec.AddExtra("disagreements_checked", len(c.Queries))
		if outcome(rec, rt, &c, nt, labels, err) {
			rt.Fatalf("%v", err)
		}
	})
}

// probesC11: the listed textual-rewrite finding.
func probesC11(rec *h.Rec) {
	tbl := simpleTable("ta", []h.FieldDef{{Name: "fa", Ex: &h.Ex{Op: "SUM", F: "va"}}}, []string{"da", "db"})
	pts := []h.Point{
		{TS: h.BaseTS, Dims: []h.KV{{N: "da", V: h.StrV("x")}, {N: "db", V: h.IntV(1)}}, Vals: []h.KV{{N: "va", V: h.IntV(1)}}},
		{TS: h.BaseTS, Dims: []h.KV{{N: "da", V: h.StrV("y")}, {N: "db", V: h.IntV(2)}}, Vals: []h.KV{{N: "va", V: h.IntV(2)}}},
	}
	sub := &h.Query{Fields: []h.QField{{Name: "da"}}, From: "ta", GroupBy: []string{"da"}}
	c := C11Case{Data: DataCase{Schema: h.Schema{Tables: []h.TableDef{tbl}}, Points: pts}, N: 2,
		Queries: []*h.Query{{Fields: []h.QField{{Name: "fa"}}, From: "ta", WhereIn: &h.InSub{Dim: "da", Sub: sub}, GroupBy: []string{"db"}}}}
	c2 := C11Case{Data: DataCase{Schema: h.Schema{Tables: []h.TableDef{tbl}}, Points: append(append([]h.Point(nil), pts...), pts...)}, N: 1,
		Queries: []*h.Query{{Fields: []h.QField{{Star: true}}, From: "ta", OrderBy: []h.OrderKey{{Field: "da"}}, Limit: 5, Offset: 1}}}
	probe(rec, "TestC11", "pushdown-offset-twice", "a pushed-down query with LIMIT 1, 5 skips the first row on the partition and again on the leader (2 rows stored: local plan returns 1 row, cluster plan 0)", c2, func() error { return runC11(&c2) })
	c3 := C11Case{Data: DataCase{Schema: h.Schema{Tables: []h.TableDef{tbl}}, Points: pts}, N: 2,
		Queries: []*h.Query{{Fields: []h.QField{{Name: "fa"}}, From: "ta", GroupNone: true, Crosstab: []string{"da"}}}}
	probe(rec, "TestC11", "bytemap-prefix-match", "GROUP BY _, CROSSTAB(da) through the cluster plan returns keys with a dimension '_' holding the crosstab value (prefix match of '_' against '_crosstab' in the dependency bytemap)", c3, func() error { return runC11(&c3) })
	c4 := C11Case{Data: DataCase{Schema: h.Schema{Tables: []h.TableDef{tbl}}, Points: pts}, N: 1,
		Queries: []*h.Query{{Fields: []h.QField{{Star: true}}, From: "ta", GroupStar: true, Crosstab: []string{"da"}}}}
	probe(rec, "TestC11", "crosstab-star-cluster-panic", "SELECT * ... GROUP BY *, CROSSTAB(da) panics on the leader (interface conversion: nil, not string): the partition query 'group by *, concat(..) as _crosstab' is planned without a group stage, so rows arrive without the _crosstab dimension", c4, func() error { return runC11(&c4) })
	tbl6 := simpleTable("ta", []h.FieldDef{{Name: "fa", Ex: &h.Ex{Op: "SUM", F: "va"}}}, []string{"da"})
	pts6 := []h.Point{
		{TS: h.BaseTS, Dims: []h.KV{{N: "da", V: h.StrV("x")}, {N: "dd", V: h.BoolV(true)}}, Vals: []h.KV{{N: "va", V: h.IntV(1)}}},
		{TS: h.BaseTS, Dims: []h.KV{{N: "da", V: h.StrV("x")}, {N: "dd", V: h.BoolV(false)}}, Vals: []h.KV{{N: "va", V: h.IntV(2)}}},
	}
	c6 := C11Case{Data: DataCase{Schema: h.Schema{Tables: []h.TableDef{tbl6}}, Points: pts6}, N: 2, AllDims: true,
		Queries: []*h.Query{{Fields: []h.QField{{Star: true}}, From: "ta"}}}
	for c6.Salt = 0; c6.Salt < 50 && c6.partitionOf(pts6[0]) == c6.partitionOf(pts6[1]); c6.Salt++ {
	}
	probe(rec, "TestC11", "pushdown-splits-table-key", "table grouped by da without partition keys: two points of key da=x that differ in another dim are routed to different partitions (hash of all dims); SELECT * is pushed down whole and returns two rows for (da=x, period) instead of one merged row", c6, func() error { return runC11(&c6) })
	tbl7 := simpleTable("ta", []h.FieldDef{{Name: "fa", Ex: &h.Ex{Op: "SUM", F: "va"}}}, []string{"da", "db"})
	tbl7.PartBy = []string{"da"}
	c7 := C11Case{Data: DataCase{Schema: h.Schema{Tables: []h.TableDef{tbl7}}, Points: pts}, N: 2,
		Queries: []*h.Query{{Fields: []h.QField{{Name: "fa"}}, From: "ta", GroupEx: []h.GroupEx{{Name: "g2", SQL: "LEN(da)"}}}}}
	for c7.Salt = 0; c7.Salt < 50 && c7.partitionOf(pts[0]) == c7.partitionOf(pts[1]); c7.Salt++ {
	}
	probe(rec, "TestC11", "len-declared-one-to-one", "table partitioned by da, GROUP BY LEN(da) AS g2: the query is pushed down whole although the group g2=1 spans both partitions (da=x and da=y), so the cluster returns one row per partition instead of one merged row; the dependency goexpr reports LEN's argument as a one-to-one parameter", c7, func() error { return runC11(&c7) })
	if raw, err := os.ReadFile("probes/c11_shift.json"); err == nil {
		var c5 C11Case
		if json.Unmarshal(raw, &c5) == nil {
			probe(rec, "TestC11", "shift-twice-nonpushdown", "a SHIFT(...) field in a non-pushdown cluster query is shifted on the partition and again on the leader (SELECT ..., SHIFT(_points, '-15s') AS q1 ... GROUP BY period(10s): the shifted value appears one period later than in the local plan)", c5, func() error { return runC11(&c5) })
		}
	}
	if raw, err := os.ReadFile("probes/c11_pctref.json"); err == nil {
		var c8 C11Case
		if json.Unmarshal(raw, &c8) == nil {
			probe(rec, "TestC11", "percentile-of-field-nonpushdown", "PERCENTILE(<stored percentile field>, p) in a non-pushdown cluster query (here ... GROUP BY stride(10s) on one partition) comes back as 0 (or the row is missing) while the local plan returns the percentile: the partition answers with its own PERCENTILE(...) column and the leader's group stage cannot merge it back into the wrapped field", c8, func() error { return runC11(&c8) })
		}
	}
	probe(rec, "TestC11", "textual-group-by-rewrite", "a non-pushdown query whose text contains 'group by ' before the outer GROUP BY (here inside an IN-subquery) is cut at the wrong place by planClusterNonPushdown: the cluster plan is a parse error while the local plan returns rows", c, func() error { return runC11(&c) })
}

func init() {
	register("TestC11", func(raw json.RawMessage) error {
		var c C11Case
		if err := json.Unmarshal(raw, &c); err != nil {
			return err
		}
		return runC11(&c)
	})
}
