package checks

import (
	"encoding/json"
	"fmt"
	"math"
	"strings"
	"testing"
	"time"

	"github.com/getlantern/bytemap"

	"verifharness/h"

	"pgregory.net/rapid"
)

// POp is one step of a payload history.
type POp struct {
	K     string  `json:"k"` // valid hostile raw
	Idx   int     `json:"idx,omitempty"`
	Dims  []HKV   `json:"dims,omitempty"`
	Vals  []HKV   `json:"vals,omitempty"`
	RawD  []byte  `json:"rawd,omitempty"`
	RawV  []byte  `json:"rawv,omitempty"`
	TSOff int64   `json:"tsoff,omitempty"`
	Val   float64 `json:"val,omitempty"`
}

// HKV is a named hostile value kind.
type HKV struct {
	N    string `json:"n"`
	Kind string `json:"kind"`
}

// C16PayloadCase is a history of hostile and valid inserts.
type C16PayloadCase struct {
	Ops     []POp `json:"ops"`
	Cluster bool  `json:"cluster"`
	Flush   bool  `json:"flush"`
}

var hostileKinds = []string{"nil", "bool", "u8", "u16", "u32", "u64", "uint", "i8", "i16", "i32", "i64", "int", "f32", "float", "nan", "inf", "-inf", "str", "emptystr", "hugestr", "time", "bytes", "emptyfloats", "emptyints", "floats", "ints", "nanfloats", "map", "strs", "struct", "ptr"}

func hostileGo(kind string) interface{} {
	switch kind {
	case "nil":
		return nil
	case "bool":
		return true
	case "u8":
		return byte(7)
	case "u16":
		return uint16(7)
	case "u32":
		return uint32(7)
	case "u64":
		return uint64(7)
	case "uint":
		return uint(7)
	case "i8":
		return int8(-7)
	case "i16":
		return int16(-7)
	case "i32":
		return int32(-7)
	case "i64":
		return int64(-7)
	case "int":
		return 3
	case "f32":
		return float32(1.5)
	case "float":
		return 2.5
	case "nan":
		return math.NaN()
	case "inf":
		return math.Inf(1)
	case "-inf":
		return math.Inf(-1)
	case "str":
		return "x"
	case "emptystr":
		return ""
	case "hugestr":
		return strings.Repeat("h", 70000)
	case "time":
		return time.Unix(1577836800, 0)
	case "bytes":
		return []byte{0, 1, 2, 255}
	case "emptyfloats":
		return []float64{}
	case "emptyints":
		return []int{}
	case "floats":
		return []float64{1, 2}
	case "ints":
		return []int{1, 2, 3}
	case "nanfloats":
		return []float64{math.NaN(), math.Inf(1)}
	case "map":
		return map[string]int{"a": 1}
	case "strs":
		return []string{"a"}
	case "struct":
		return struct{ A int }{1}
	case "ptr":
		x := 5
		return &x
	}
	return nil
}

func genC16Payload(t *rapid.T) C16PayloadCase {
	c := C16PayloadCase{Cluster: rapid.IntRange(0, 2).Draw(t, "cluster") == 0, Flush: rapid.Bool().Draw(t, "flush")}
	n := rapid.IntRange(1, 14).Draw(t, "nops")
	valid := 0
	names := []string{"da", "db", "dc", "dd", "va", "vb", "vc", "_points", "_point", "_having", "_crosstab", "_", ""}
	for i := 0; i < n; i++ {
		switch rapid.IntRange(0, 3).Draw(t, fmt.Sprintf("k%d", i)) {
		case 0:
			valid++
			c.Ops = append(c.Ops, POp{K: "valid", Idx: valid, TSOff: int64(rapid.IntRange(0, 5).Draw(t, fmt.Sprintf("ts%d", i))) * 1e9, Val: float64(rapid.IntRange(1, 9).Draw(t, fmt.Sprintf("v%d", i)))})
		case 1, 2:
			op := POp{K: "hostile", TSOff: int64(rapid.IntRange(-3, 8).Draw(t, fmt.Sprintf("ts%d", i))) * 1e9} // inside every table's retention: a far-future timestamp is a legal point that moves the virtual clock
			nd := rapid.IntRange(0, 3).Draw(t, fmt.Sprintf("nd%d", i))
			for j := 0; j < nd; j++ {
				op.Dims = append(op.Dims, HKV{N: rapid.SampledFrom(names).Draw(t, fmt.Sprintf("dn%d_%d", i, j)), Kind: rapid.SampledFrom(hostileKinds).Draw(t, fmt.Sprintf("dk%d_%d", i, j))})
			}
			nv := rapid.IntRange(0, 3).Draw(t, fmt.Sprintf("nv%d", i))
			for j := 0; j < nv; j++ {
				op.Vals = append(op.Vals, HKV{N: rapid.SampledFrom(names).Draw(t, fmt.Sprintf("vn%d_%d", i, j)), Kind: rapid.SampledFrom(hostileKinds).Draw(t, fmt.Sprintf("vk%d_%d", i, j))})
			}
			c.Ops = append(c.Ops, op)
		default:
			op := POp{K: "raw", TSOff: int64(rapid.IntRange(0, 5).Draw(t, fmt.Sprintf("ts%d", i))) * 1e9}
			op.RawD = rapid.SliceOfN(rapid.Byte(), 0, 24).Draw(t, fmt.Sprintf("rd%d", i))
			op.RawV = rapid.SliceOfN(rapid.Byte(), 0, 24).Draw(t, fmt.Sprintf("rv%d", i))
			if rapid.Bool().Draw(t, fmt.Sprintf("rvvalid%d", i)) {
				// garbage dims with well-formed values (reaches the row store)
				op.RawV = nil
			}
			c.Ops = append(c.Ops, op)
		}
	}
	// always end with a valid point: "valid points inserted afterwards"
	valid++
	c.Ops = append(c.Ops, POp{K: "valid", Idx: valid, Val: 1})
	return c
}

var payloadSchema = h.Schema{Tables: []h.TableDef{
	{Name: "ta", Stream: "inbound", Fields: []h.FieldDef{{Name: "fa", Ex: &h.Ex{Op: "SUM", F: "va"}}}, GroupBy: []string{"da"}, ResNS: 1e9, RetNS: 3600e9, PartBy: []string{"da"}},
	{Name: "tb", Stream: "inbound", Fields: []h.FieldDef{{Name: "fa", Ex: &h.Ex{Op: "MAX", F: "va"}}}, GroupAll: true, ResNS: 1e9, RetNS: 3600e9, Where: &h.Pred{Op: "NOTNULL", Dim: "dc"}},
}}

type inserter interface {
	insert(ts time.Time, dims, vals map[string]interface{}) error
	insertRaw(ts time.Time, dims, vals bytemap.ByteMap) error
}

func applyPayloadOps(c *C16PayloadCase, ins inserter) (want map[string]float64, err error) {
	want = map[string]float64{}
	for i, op := range c.Ops {
		func() {
			defer func() {
				if p := recover(); p != nil {
					err = fmt.Errorf("op %d (%s): insert PANICKED: %v", i, op.K, p)
				}
			}()
			ts := time.Unix(0, h.BaseTS+op.TSOff)
			switch op.K {
			case "valid":
				key := fmt.Sprintf("k%d", op.Idx)
				if e := ins.insert(ts, map[string]interface{}{"da": key}, map[string]interface{}{"va": op.Val}); e != nil {
					err = fmt.Errorf("op %d: a valid point was rejected after hostile payloads: %v", i, e)
				}
				want[key] = op.Val
			case "hostile":
				dims := map[string]interface{}{}
				for _, kv := range op.Dims {
					dims[kv.N] = hostileGo(kv.Kind)
				}
				vals := map[string]interface{}{}
				for _, kv := range op.Vals {
					vals[kv.N] = hostileGo(kv.Kind)
				}
				ins.insert(ts, dims, vals) // an error is fine
			case "raw":
				vals := bytemap.ByteMap(op.RawV)
				if op.RawV == nil {
					vals = bytemap.New(map[string]interface{}{"va": 1.0})
				}
				ins.insertRaw(ts, bytemap.ByteMap(op.RawD), vals)
			}
		}()
		if err != nil {
			return want, err
		}
	}
	return want, nil
}

type dbInserter struct{ db *h.DB }

func (d dbInserter) insert(ts time.Time, dims, vals map[string]interface{}) error {
	return d.db.Z.Insert("inbound", ts, dims, vals)
}
func (d dbInserter) insertRaw(ts time.Time, dims, vals bytemap.ByteMap) error {
	return d.db.Z.InsertRaw("inbound", ts, dims, vals)
}

type clusterInserter struct{ cl *h.Cluster }

func (d clusterInserter) insert(ts time.Time, dims, vals map[string]interface{}) error {
	return d.cl.Leaders[0].Z.Insert("inbound", ts, dims, vals)
}
func (d clusterInserter) insertRaw(ts time.Time, dims, vals bytemap.ByteMap) error {
	return d.cl.Leaders[0].Z.InsertRaw("inbound", ts, dims, vals)
}

func checkValidRows(res *h.Result, want map[string]float64, where string) error {
	got := map[string]float64{}
	for _, r := range res.Rows {
		if k, ok := r.KeyMap["da"].(string); ok && strings.HasPrefix(k, "k") {
			got[k] += r.Vals["fa"]
		}
	}
	for k, v := range want {
		if got[k] != v {
			return fmt.Errorf("%s: valid point %s (va=%v) inserted among hostile payloads is stored as fa=%v", where, k, v, got[k])
		}
	}
	return nil
}

func runC16PayloadOnce(c *C16PayloadCase) error {
	saved := h.QuiesceTimeout
	h.QuiesceTimeout = 15 * time.Second
	defer func() { h.QuiesceTimeout = saved }()
	if !c.Cluster {
		dir := h.ScratchDir("c16p")
		defer removeAll(dir)
		db, err := h.OpenDB(dir, &payloadSchema, h.DBConf{}, nil)
		if err != nil {
			return fmt.Errorf("%w: open: %v", errSetup, err)
		}
		defer db.Close()
		want, err := applyPayloadOps(c, dbInserter{db})
		if err != nil {
			return err
		}
		if err := db.Quiesce(); err != nil {
			return err
		}
		if c.Flush {
			db.Flush()
		}
		db.Z.VerifAdvanceClock(time.Unix(0, h.BaseTS+10e9))
		res, err := db.Query("SELECT * FROM ta", h.QueryOpts{Mem: true})
		if err != nil {
			if h.IsInconclusive(err) {
				return err
			}
			return fmt.Errorf("SELECT * FROM ta after the history: %v", err)
		}
		return checkValidRows(res, want, "standalone")
	}
	root := h.ScratchDir("c16c")
	defer removeAll(root)
	cl, err := h.OpenCluster(root, &payloadSchema, h.ClusterConf{Partitions: 2, Leaders: 1, FollowersPer: 1})
	if err != nil {
		if h.IsInconclusive(err) {
			return err
		}
		return fmt.Errorf("%w: open cluster: %v", errSetup, err)
	}
	defer cl.Close()
	want, err := applyPayloadOps(c, clusterInserter{cl})
	if err != nil {
		return err
	}
	if err := cl.Quiesce(); err != nil {
		return err
	}
	if c.Flush {
		for _, f := range cl.Followers {
			f.Z.FlushAll()
		}
	}
	cl.AdvanceClocks(h.BaseTS + 10e9)
	res, err := cl.QueryLeader(0, "SELECT * FROM ta", h.QueryOpts{Mem: true})
	if err != nil {
		if h.IsInconclusive(err) {
			return err
		}
		return fmt.Errorf("leader SELECT * FROM ta after the history: %v", err)
	}
	if res.Stats != nil && (len(res.Stats.MissingPartitions) > 0 || res.Stats.NumSuccessfulPartitions < res.Stats.NumPartitions) {
		// a partition had no registered harness handler at that moment: the rows
		// say nothing about ingestion
		return fmt.Errorf("%w: leader query incomplete: %+v", h.ErrInconclusive, *res.Stats)
	}
	return checkValidRows(res, want, "cluster")
}

// runC16Payload: a pipeline that does not catch up is a violation only when
// it reproduces (same history, fresh database, twice).
func runC16Payload(c *C16PayloadCase) error {
	err := runC16PayloadOnce(c)
	if err != nil && h.IsInconclusive(err) {
		err2 := runC16PayloadOnce(c)
		if err2 != nil && h.IsInconclusive(err2) {
			return fmt.Errorf("ingestion did not catch up after the payload history in two fresh attempts (stalled pipeline): %v", strings.Replace(err2.Error(), "inconclusive: ", "", -1))
		}
		return err2
	}
	return err
}

func TestC16Payload(t *testing.T) {
	rec := h.NewRec(t, "TestC16Payload")
	rapid.Check(t, func(rt *rapid.T) {
		c := genC16Payload(rt)
		hostile, raw := 0, 0
		for _, op := range c.Ops {
			if op.K == "hostile" {
				hostile++
			}
			if op.K == "raw" {
				raw++
			}
		}
		labels := []string{}
		if c.Cluster {
			labels = append(labels, "cluster")
		}
		if raw > 0 {
			labels = append(labels, "raw-bytes")
		}
		if hostile > 0 {
			labels = append(labels, "ill-typed-values")
		}
		err := runC16Payload(&c)
		if outcome(rec, rt, &c, hostile+raw > 0, labels, err) {
			rt.Fatalf("%v", err)
		}
	})
}

func init() {
	register("TestC16Payload", func(raw json.RawMessage) error {
		var c C16PayloadCase
		if err := json.Unmarshal(raw, &c); err != nil {
			return err
		}
		return runC16Payload(&c)
	})
}
