package checks

import (
	"bytes"
	"compress/gzip"
	"context"
	"encoding/base64"
	"encoding/json"
	"fmt"
	"io"
	stdlog "log"
	"net"
	"net/http"
	"net/http/httptest"
	"net/url"
	"strings"
	"sync"
	"sync/atomic"
	"testing"
	"time"

	"github.com/getlantern/zenodb/common"
	"github.com/getlantern/zenodb/core"
	"github.com/getlantern/zenodb/rpc"
	rpcserver "github.com/getlantern/zenodb/rpc/server"
	"github.com/getlantern/zenodb/web"
	"github.com/gorilla/mux"
	"github.com/gorilla/securecookie"

	"verifharness/h"

	"pgregory.net/rapid"
)

const (
	c19Password = "Sekret-Pa55"
	c19HashKey  = "0123456789abcdef0123456789abcdef0123456789abcdef0123456789abcdef"
	c19BlockKey = "0123456789abcdef0123456789abcdef"
)

// C19Req is one request against one endpoint under one configuration.
type C19Req struct {
	Transport string `json:"transport"` // rpc web
	Endpoint  string `json:"endpoint"`  // query follow register | run async immediate cached
	PwSet     bool   `json:"pw_set"`
	OAuth     bool   `json:"oauth"`
	Cred      string `json:"cred"`             // none wrong right prefix suffix case junk | token-wrong token-right cookie-forged cookie-foreign cookie-expired cookie-valid cookie-mutated
	Value     string `json:"value,omitempty"`  // explicit credential for generated near-misses
	GitHub    string `json:"github,omitempty"` // error inorg notinorg
}

var c19Schema = h.Schema{Tables: []h.TableDef{{Name: "ta", Stream: "inbound", Fields: []h.FieldDef{{Name: "fa", Ex: &h.Ex{Op: "SUM", F: "va"}}}, GroupBy: []string{"da"}, ResNS: 1e9, RetNS: 3600e9}}}

type githubStub struct {
	mode atomic.Value
	base http.RoundTripper
}

func (g *githubStub) RoundTrip(req *http.Request) (*http.Response, error) {
	if strings.Contains(req.URL.Host, "github.com") {
		mode, _ := g.mode.Load().(string)
		switch mode {
		case "inorg":
			return &http.Response{StatusCode: 200, Body: io.NopCloser(strings.NewReader(`[{"login":"theorg"}]`)), Header: http.Header{}, Request: req}, nil
		case "notinorg":
			return &http.Response{StatusCode: 200, Body: io.NopCloser(strings.NewReader(`[{"login":"other"}]`)), Header: http.Header{}, Request: req}, nil
		}
		return nil, fmt.Errorf("github unreachable (stub)")
	}
	return g.base.RoundTrip(req)
}

type c19Fixture struct {
	db       *h.DB
	leader   *h.PlanLeader
	rpcAddr  map[bool]string // password set? -> query server address
	ldrAddr  map[bool]string // password set? -> leader server address
	webURL   map[string]string
	perma    map[string]string
	stub     *githubStub
	client   *http.Client
	invoked  int32
	cleanups []func()
}

var (
	c19Once sync.Once
	c19Fix  *c19Fixture
	c19Err  error
)

func webKey(pw, oauth bool) string { return fmt.Sprintf("pw=%v,oauth=%v", pw, oauth) }

func c19Setup() (*c19Fixture, error) {
	c19Once.Do(func() {
		f := &c19Fixture{rpcAddr: map[bool]string{}, ldrAddr: map[bool]string{}, webURL: map[string]string{}, perma: map[string]string{}}
		stdlog.SetOutput(io.Discard) // net/http logs superfluous WriteHeader calls of the handlers
		f.stub = &githubStub{base: http.DefaultTransport}
		f.stub.mode.Store("error")
		http.DefaultTransport = f.stub
		f.client = &http.Client{Transport: f.stub.base, CheckRedirect: func(*http.Request, []*http.Request) error { return http.ErrUseLastResponse }, Timeout: 30 * time.Second}
		db, err := h.OpenDB(h.ScratchDir("c19"), &c19Schema, h.DBConf{}, nil)
		if err != nil {
			c19Err = err
			return
		}
		f.db = db
		for i := 0; i < 3; i++ {
			db.Insert("inbound", h.Point{TS: h.BaseTS + int64(i)*1e9, Dims: []h.KV{{N: "da", V: h.StrV("x")}}, Vals: []h.KV{{N: "va", V: h.IntV(int64(i + 1))}}})
		}
		if c19Err = db.Quiesce(); c19Err != nil {
			return
		}
		db.Flush()
		db.Z.VerifAdvanceClock(time.Unix(0, h.BaseTS+5e9))
		leader, err := h.OpenPlanLeader(h.ScratchDir("c19l"), &c19Schema, 1)
		if err != nil {
			c19Err = err
			return
		}
		f.leader = leader
		leader.Z.VerifAdvanceClock(time.Unix(0, h.BaseTS+5e9))
		leader.Z.Insert("inbound", time.Unix(0, h.BaseTS), map[string]interface{}{"da": "x"}, map[string]interface{}{"va": 1.0})
		for _, pw := range []bool{true, false} {
			password := ""
			if pw {
				password = c19Password
			}
			l1, err := net.Listen("tcp", "127.0.0.1:0")
			if err != nil {
				c19Err = err
				return
			}
			serve, _ := rpcserver.PrepareServer(db.Z, l1, &rpcserver.Opts{ID: 1, Password: password})
			go serve()
			f.rpcAddr[pw] = l1.Addr().String()
			l2, err := net.Listen("tcp", "127.0.0.1:0")
			if err != nil {
				c19Err = err
				return
			}
			serve2, _ := rpcserver.PrepareServer(leader.Z, l2, &rpcserver.Opts{ID: 2, Password: password})
			go serve2()
			f.ldrAddr[pw] = l2.Addr().String()
			for _, oauth := range []bool{true, false} {
				router := mux.NewRouter()
				opts := &web.Opts{HashKey: c19HashKey, BlockKey: c19BlockKey, CacheDir: h.ScratchDir("c19cache"), Password: password, QueryTimeout: 20 * time.Second}
				if oauth {
					opts.OAuthClientID, opts.OAuthClientSecret, opts.GitHubOrg = "clientid", "clientsecret", "theorg"
				}
				if _, err := web.Configure(db.Z, router, opts); err != nil {
					c19Err = err
					return
				}
				srv := httptest.NewServer(router)
				f.webURL[webKey(pw, oauth)] = srv.URL
			}
		}
		c19Fix = f
	})
	return c19Fix, c19Err
}

const c19SQL = "SELECT * FROM ta"

func (f *c19Fixture) cookie(hashKey, blockKey string, expires time.Time) string {
	sc := securecookie.New([]byte(hashKey), []byte(blockKey))
	v, err := sc.Encode("authcookie", &web.AuthData{AccessToken: "tok", Expiration: expires})
	if err != nil {
		panic(err)
	}
	return v
}

// webRequest performs the request and reports whether data was served.
func (f *c19Fixture) webRequest(r *C19Req) (served bool, detail string, err error) {
	base := f.webURL[webKey(r.PwSet, r.OAuth)]
	path := "/" + r.Endpoint + "?" + url.QueryEscape(c19SQL)
	if r.Endpoint == "cached" {
		link := f.perma[webKey(r.PwSet, r.OAuth)]
		if link == "" {
			return false, "", fmt.Errorf("%w: no permalink for this configuration", errSetup)
		}
		path = "/cached/" + link
	}
	req, _ := http.NewRequest("GET", base+path, nil)
	switch r.Cred {
	case "none":
	case "token-wrong", "token-right", "token-near":
		req.Header.Set("X-Zeno-Auth-Token", r.Value)
	case "cookie-forged", "cookie-foreign", "cookie-expired", "cookie-valid", "cookie-mutated":
		req.AddCookie(&http.Cookie{Name: "authcookie", Value: r.Value})
	}
	f.stub.mode.Store(r.GitHub)
	resp, err := f.client.Do(req)
	if err != nil {
		return false, "", fmt.Errorf("%w: http: %v", errSetup, err)
	}
	defer resp.Body.Close()
	body, _ := io.ReadAll(resp.Body)
	// a refusal status does not prove that nothing was disclosed: a handler that
	// writes the refusal and carries on sends the (gzip-compressed) result as the
	// body of the 403/307, without the Content-Encoding header
	if len(body) > 2 && body[0] == 0x1f && body[1] == 0x8b {
		if gz, gerr := gzip.NewReader(bytes.NewReader(body)); gerr == nil {
			if plain, _ := io.ReadAll(gz); len(plain) > 0 {
				body = plain
			}
		}
	} else if i := bytes.Index(body, []byte{0x1f, 0x8b}); i > 0 {
		if gz, gerr := gzip.NewReader(bytes.NewReader(body[i:])); gerr == nil {
			if plain, _ := io.ReadAll(gz); len(plain) > 0 {
				body = append(body[:i:i], plain...)
			}
		}
	}
	hasRows := strings.Contains(string(body), `"Rows"`) || strings.Contains(string(body), `"fa"`)
	served = resp.StatusCode == 200 || resp.StatusCode == 202 || hasRows
	return served, fmt.Sprintf("status %d, %d body bytes, rows in body: %v", resp.StatusCode, len(body), hasRows), nil
}

func (f *c19Fixture) rpcRequest(r *C19Req) (served bool, detail string, err error) {
	addr := f.rpcAddr[r.PwSet]
	if r.Endpoint != "query" {
		addr = f.ldrAddr[r.PwSet]
	}
	client, err := rpc.Dial(addr, &rpc.ClientOpts{Password: r.Value, Dialer: func(a string, timeout time.Duration) (net.Conn, error) { return net.DialTimeout("tcp", a, timeout) }})
	if err != nil {
		return false, "", fmt.Errorf("%w: dial: %v", errSetup, err)
	}
	defer client.Close()
	ctx, cancel := context.WithTimeout(context.Background(), 10*time.Second)
	defer cancel()
	switch r.Endpoint {
	case "query":
		_, iterate, err := client.Query(ctx, c19SQL, true)
		rows := 0
		if err == nil {
			_, err = iterate(func(row *core.FlatRow) (bool, error) { rows++; return true, nil })
		}
		return err == nil || rows > 0, fmt.Sprintf("rows=%d err=%v", rows, err), nil
	case "follow":
		fo := &common.Follow{FollowerID: common.FollowerID{Partition: 0, ID: 77}, Stream: "inbound", Partitions: map[string]*common.Partition{"": {Tables: []*common.PartitionTable{{Name: "ta"}}}}}
		_, next, err := client.Follow(ctx, fo)
		if err != nil {
			return false, fmt.Sprintf("err=%v", err), nil
		}
		got := make(chan error, 1)
		go func() {
			data, _, err := next()
			if err == nil && len(data) > 0 {
				got <- nil
			} else {
				got <- fmt.Errorf("no data: %v", err)
			}
		}()
		select {
		case e := <-got:
			return e == nil, fmt.Sprintf("follow delivered data: %v (%v)", e == nil, e), nil
		case <-time.After(3 * time.Second):
			return false, "follow accepted but no entry within 3s", nil
		}
	case "register":
		var invoked int32
		rogue := func(ctx context.Context, sqlString string, isSubQuery bool, subQueryResults [][]interface{}, unflat bool, onFields core.OnFields, onRow core.OnRow, onFlatRow core.OnFlatRow) (interface{}, error) {
			atomic.StoreInt32(&invoked, 1)
			return nil, nil
		}
		done := make(chan error, 1)
		go func() { done <- client.ProcessRemoteQuery(ctx, 0, rogue, 4*time.Second) }()
		select {
		case <-done: // refused (or failed) right away
		case <-time.After(400 * time.Millisecond): // registered, waiting for a query
		}
		// a leader query: its SQL text must not reach a handler registered without credentials
		src, qerr := f.leader.Z.Query(c19SQL, false, nil, true)
		if qerr == nil {
			qctx, qcancel := context.WithTimeout(context.Background(), 2*time.Second)
			src.Iterate(qctx, core.FieldsIgnored, func(row *core.FlatRow) (bool, error) { return true, nil })
			qcancel()
		}
		time.Sleep(50 * time.Millisecond)
		return atomic.LoadInt32(&invoked) == 1, fmt.Sprintf("handler received the query: %v", atomic.LoadInt32(&invoked) == 1), nil
	}
	return false, "", fmt.Errorf("unknown endpoint")
}

// entitled says whether the request carries a credential that the property
// allows to be served.
func (r *C19Req) entitled() (must bool, may bool) {
	if r.Transport == "rpc" {
		if !r.PwSet {
			return false, true // no password configured: out of scope
		}
		return r.Cred == "right", r.Cred == "right"
	}
	if !r.OAuth {
		return false, true // web authentication not configured: out of scope
	}
	switch r.Cred {
	case "token-right":
		return r.PwSet, r.PwSet
	case "cookie-valid":
		return true, true
	case "cookie-expired":
		// re-verified against GitHub: unspecified when GitHub still vouches
		return false, r.GitHub == "inorg"
	case "cookie-mutated":
		// a mutation can be a different spelling of the same cookie (base64 has
		// non-canonical encodings): what counts is whether the value still is a
		// well-signed, unexpired session under the configured keys
		var ad web.AuthData
		sc := securecookie.New([]byte(c19HashKey), []byte(c19BlockKey))
		if sc.Decode("authcookie", r.Value, &ad) == nil {
			if ad.Expiration.After(time.Now()) {
				return false, true
			}
			return false, r.GitHub == "inorg"
		}
	}
	return false, false
}

func runC19(r *C19Req) error {
	f, err := c19Setup()
	if err != nil {
		return fmt.Errorf("%w: fixture: %v", errSetup, err)
	}
	var served bool
	var detail string
	if r.Transport == "rpc" {
		served, detail, err = f.rpcRequest(r)
	} else {
		served, detail, err = f.webRequest(r)
	}
	if err != nil {
		return err
	}
	must, may := r.entitled()
	if served && !may {
		return fmt.Errorf("%s %s served a caller without valid credentials (config password=%v oauth=%v, credential %s %q, github=%s): %s", r.Transport, r.Endpoint, r.PwSet, r.OAuth, r.Cred, r.Value, r.GitHub, detail)
	}
	if !served && must {
		// fixture sanity, not part of the (one-directional) property
		return fmt.Errorf("%w: a properly authorised request was not served (%s %s %s): %s", h.ErrInconclusive, r.Transport, r.Endpoint, r.Cred, detail)
	}
	return nil
}

func (f *c19Fixture) value(cred string) string {
	switch cred {
	case "wrong", "token-wrong":
		return "not-the-password"
	case "right", "token-right":
		return c19Password
	case "prefix":
		return c19Password[:4]
	case "suffix":
		return c19Password[3:]
	case "case":
		return strings.ToLower(c19Password)
	case "junk":
		return c19Password + "x"
	case "cookie-forged":
		return "MTIzNDU2Nzg5MHxmb3JnZWQtY29va2llLXZhbHVlfGFiY2RlZg=="
	case "cookie-foreign":
		return f.cookie(strings.Repeat("z", 64), strings.Repeat("y", 32), time.Now().Add(time.Hour))
	case "cookie-expired":
		return f.cookie(c19HashKey, c19BlockKey, time.Now().Add(-time.Hour))
	case "cookie-valid":
		return f.cookie(c19HashKey, c19BlockKey, time.Now().Add(30*time.Minute))
	}
	return ""
}

// TestC19Lattice enumerates the whole credential lattice.
func TestC19Lattice(t *testing.T) {
	rec := h.NewRec(t, "TestC19Lattice")
	f, err := c19Setup()
	if err != nil {
		t.Fatalf("fixture: %v", err)
	}
	// permalinks of cached results, obtained with proper credentials
	for _, pw := range []bool{true, false} {
		for _, oauth := range []bool{true, false} {
			req, _ := http.NewRequest("GET", f.webURL[webKey(pw, oauth)]+"/immediate?"+url.QueryEscape(c19SQL), nil)
			req.AddCookie(&http.Cookie{Name: "authcookie", Value: f.value("cookie-valid")})
			resp, err := f.client.Do(req)
			if err == nil {
				var doc struct{ Permalink string }
				body, _ := io.ReadAll(resp.Body)
				resp.Body.Close()
				json.Unmarshal(body, &doc)
				f.perma[webKey(pw, oauth)] = doc.Permalink
			}
		}
	}
	fails := 0
	run := func(r C19Req) {
		must, _ := r.entitled()
		key, _ := json.Marshal(r)
		rec.CountKeyed(string(key), !must, "transport-"+r.Transport, "endpoint-"+r.Endpoint, "cred-"+r.Cred)
		err := runC19(&r)
		if err != nil {
			if h.IsInconclusive(err) || strings.Contains(err.Error(), "setup") {
				rec.Inconclusive()
				t.Logf("inconclusive: %v", err)
				return
			}
			fails++
			if fails <= 5 {
				rec.FailKeep("TestC19", &r, err.Error(), "")
			}
			t.Errorf("%v", err)
		}
	}
	for _, pw := range []bool{true, false} {
		for _, ep := range []string{"query", "follow", "register"} {
			for _, cred := range []string{"none", "wrong", "right", "prefix", "suffix", "case", "junk"} {
				run(C19Req{Transport: "rpc", Endpoint: ep, PwSet: pw, Cred: cred, Value: f.value(cred)})
			}
		}
		for _, oauth := range []bool{true, false} {
			for _, ep := range []string{"immediate", "async", "run", "cached"} {
				for _, cred := range []string{"none", "token-wrong", "token-right", "cookie-forged", "cookie-foreign", "cookie-expired", "cookie-valid"} {
					ghs := []string{"error"}
					if cred == "cookie-expired" || cred == "cookie-forged" || cred == "none" {
						ghs = []string{"error", "inorg", "notinorg"}
					}
					for _, gh := range ghs {
						run(C19Req{Transport: "web", Endpoint: ep, PwSet: pw, OAuth: oauth, Cred: cred, Value: f.value(cred), GitHub: gh})
					}
				}
			}
		}
	}
	rec.Extra("exhaustive", true)
	rec.Sample(C19Req{Transport: "web", Endpoint: "immediate", PwSet: true, OAuth: true, Cred: "cookie-expired", GitHub: "error"})
	rec.Sample(C19Req{Transport: "rpc", Endpoint: "register", PwSet: true, Cred: "none"})
}

// TestC19Near generates near-miss credentials.
func TestC19Near(t *testing.T) {
	rec := h.NewRec(t, "TestC19Near")
	f, err := c19Setup()
	if err != nil {
		t.Fatalf("fixture: %v", err)
	}
	rapid.Check(t, func(rt *rapid.T) {
		r := C19Req{PwSet: true, OAuth: true, GitHub: rapid.SampledFrom([]string{"error", "notinorg"}).Draw(rt, "gh")}
		mutate := func(s string) string {
			b := []byte(s)
			switch rapid.IntRange(0, 5).Draw(rt, "mut") {
			case 0:
				return s[:rapid.IntRange(0, len(s)-1).Draw(rt, "cut")]
			case 1:
				return s + rapid.StringMatching(`[a-zA-Z0-9 ]{1,3}`).Draw(rt, "tail")
			case 2:
				i := rapid.IntRange(0, len(b)-1).Draw(rt, "pos")
				b[i] ^= byte(1 << uint(rapid.IntRange(0, 6).Draw(rt, "bit")))
				return string(b)
			case 3:
				return strings.ToUpper(s)
			case 4:
				return " " + s
			}
			i := rapid.IntRange(0, len(b)-1).Draw(rt, "pos")
			return string(append(b[:i:i], b[i+1:]...))
		}
		if rapid.Bool().Draw(rt, "rpc") {
			r.Transport = "rpc"
			r.Endpoint = rapid.SampledFrom([]string{"query", "follow", "register"}).Draw(rt, "ep")
			r.Cred = "near"
			r.Value = mutate(c19Password)
			if r.Value == c19Password {
				r.Cred = "right"
			}
		} else {
			r.Transport = "web"
			r.Endpoint = rapid.SampledFrom([]string{"immediate", "async"}).Draw(rt, "ep")
			if rapid.Bool().Draw(rt, "token") {
				r.Cred = "token-near"
				r.Value = mutate(c19Password)
				if r.Value == c19Password {
					r.Cred = "token-right"
				}
				if strings.TrimSpace(r.Value) == c19Password {
					// net/http trims header values: the server receives the right token
					r.Cred = "token-right"
				}
			} else {
				r.Cred = "cookie-mutated"
				switch rapid.IntRange(0, 2).Draw(rt, "ck") {
				case 0:
					orig := f.value("cookie-valid")
					r.Value = mutate(orig)
					// base64 has non-canonical spellings: a changed last character (or
					// padding) that decodes to the same bytes IS the valid cookie
					if a, errA := base64.URLEncoding.DecodeString(orig); errA == nil {
						if b, errB := base64.URLEncoding.DecodeString(r.Value); errB == nil && bytes.Equal(a, b) {
							r.Cred = "cookie-valid"
						}
					}
				case 1:
					r.Value = f.cookie(c19HashKey, c19BlockKey, time.Now().Add(-time.Duration(rapid.IntRange(1, 100000).Draw(rt, "ago"))*time.Second))
					r.Cred = "cookie-expired"
				default:
					r.Value = f.cookie(c19HashKey[:63]+"X", c19BlockKey, time.Now().Add(time.Hour))
				}
			}
		}
		err := runC19(&r)
		if outcome(rec, rt, &r, r.Cred != "right" && r.Cred != "token-right", []string{"transport-" + r.Transport, "cred-" + r.Cred}, err) {
			rt.Fatalf("%v", err)
		}
	})
}

func init() {
	fn := func(raw json.RawMessage) error {
		var r C19Req
		if err := json.Unmarshal(raw, &r); err != nil {
			return err
		}
		if f, err := c19Setup(); err == nil && r.Endpoint == "cached" && f.perma[webKey(r.PwSet, r.OAuth)] == "" {
			// obtain a permalink with proper credentials first
			req, _ := http.NewRequest("GET", f.webURL[webKey(r.PwSet, r.OAuth)]+"/immediate?"+url.QueryEscape(c19SQL), nil)
			req.AddCookie(&http.Cookie{Name: "authcookie", Value: f.value("cookie-valid")})
			if resp, err := f.client.Do(req); err == nil {
				var doc struct{ Permalink string }
				body, _ := io.ReadAll(resp.Body)
				resp.Body.Close()
				json.Unmarshal(body, &doc)
				f.perma[webKey(r.PwSet, r.OAuth)] = doc.Permalink
			}
		}
		return runC19(&r)
	}
	register("TestC19", fn)
	register("TestC19Near", fn)
}
