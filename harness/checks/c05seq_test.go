package checks

import (
	"bytes"
	"encoding/json"
	"fmt"
	"testing"
	"time"

	"github.com/getlantern/zenodb/encoding"
	"github.com/getlantern/zenodb/expr"

	"verifharness/h"

	"pgregory.net/rapid"
)

// SeqSpec describes a stored series on a grid of periods: the newest period
// ends at grid index Until; Samples[i] are the samples of the period i
// periods older than that (nil: period present but unset).
type SeqSpec struct {
	Until   int         `json:"until"`
	Samples [][]float64 `json:"samples"`
}

// C05SeqCase exercises Sequence.Merge / Truncate / SubMerge.
type C05SeqCase struct {
	Op     string   `json:"op"` // merge truncate submerge
	ExKind int      `json:"ex"`
	ResNS  int64    `json:"res"`
	A      SeqSpec  `json:"a"`
	B      SeqSpec  `json:"b"`
	C      *SeqSpec `json:"c,omitempty"`
	// bounds in half-grid units relative to grid index 0 (so 2*k is aligned)
	TB2    int `json:"tb2"`    // truncateBefore (merge) / asOf (truncate, submerge); -1000 = zero time
	Until2 int `json:"until2"` // until (truncate, submerge); -1000 = zero time
	Scale  int `json:"scale"`  // submerge: coarse resolution = Scale * res
}

var seqExprs = []*h.Ex{
	{Op: "SUM", F: "va"},
	{Op: "AVG", F: "va"},
	{Op: "+", Args: []*h.Ex{{Op: "MAX", F: "va"}, {Op: "COUNT", F: "va"}}},
	{Op: "/", Args: []*h.Ex{{Op: "MIN", F: "va"}, {Op: "AVG", F: "va"}}},
	{Op: "PCT", F: "va", Pct: 50, Lo: 0, Hi: 10, Prec: 0},
}

const seqBase = h.BaseTS

func gridTime(res int64, idx int) time.Time { return time.Unix(0, seqBase+int64(idx)*res) }
func halfTime(res int64, idx2 int) time.Time {
	if idx2 == -1000 {
		return time.Time{}
	}
	return time.Unix(0, seqBase+int64(idx2)*res/2)
}

func (s *SeqSpec) build(e expr.Expr, res int64) encoding.Sequence {
	if len(s.Samples) == 0 {
		return nil
	}
	seq := encoding.NewSequence(e.EncodedWidth(), len(s.Samples))
	seq.SetUntil(gridTime(res, s.Until))
	for i, samples := range s.Samples {
		for _, v := range samples {
			seq.UpdateValueAt(i, e, expr.Map{"va": v}, nil)
		}
	}
	return seq
}

// model: grid index -> samples
func (s *SeqSpec) model() map[int][]float64 {
	m := map[int][]float64{}
	for i, samples := range s.Samples {
		if len(samples) > 0 {
			m[s.Until-i] = samples
		}
	}
	return m
}

func evalSamples(ex *h.Ex, samples []float64) (float64, bool) {
	pts := make([]h.SubPoint, len(samples))
	for i, v := range samples {
		pts[i] = h.SubPoint{Vals: map[string]float64{"va": v}}
	}
	return h.EvalEx(ex, pts, nil)
}

func genSeqSpec(t *rapid.T, label string, maxLen int, lo, hi int) SeqSpec {
	s := SeqSpec{Until: rapid.IntRange(lo, hi).Draw(t, label+".until")}
	n := rapid.IntRange(0, maxLen).Draw(t, label+".len")
	for i := 0; i < n; i++ {
		k := rapid.IntRange(0, 2).Draw(t, fmt.Sprintf("%s.n%d", label, i))
		var samples []float64
		for j := 0; j < k; j++ {
			samples = append(samples, float64(rapid.IntRange(0, 9).Draw(t, fmt.Sprintf("%s.v%d_%d", label, i, j))))
		}
		s.Samples = append(s.Samples, samples)
	}
	return s
}

func genC05Seq(t *rapid.T) C05SeqCase {
	c := C05SeqCase{
		Op:     rapid.SampledFrom([]string{"merge", "merge", "truncate", "submerge"}).Draw(t, "op"),
		ExKind: rapid.IntRange(0, len(seqExprs)-1).Draw(t, "ex"),
		ResNS:  rapid.SampledFrom([]int64{1e9, 7e9, 250e6}).Draw(t, "res"),
	}
	c.A = genSeqSpec(t, "a", 6, 0, 10)
	c.B = genSeqSpec(t, "b", 6, 0, 10)
	if c.Op == "merge" && rapid.Bool().Draw(t, "three") {
		s := genSeqSpec(t, "c", 6, 0, 10)
		c.C = &s
	}
	zero := func(label string, lo, hi int) int {
		if rapid.IntRange(0, 4).Draw(t, label+".zero") == 0 {
			return -1000
		}
		return rapid.IntRange(lo, hi).Draw(t, label)
	}
	c.TB2 = zero("tb2", -16, 24)
	c.Until2 = zero("until2", -16, 24)
	c.Scale = rapid.SampledFrom([]int{1, 2, 3, 5}).Draw(t, "scale")
	if c.Op == "submerge" {
		// aligned bounds, until required
		c.Until2 = 2 * rapid.IntRange(-2, 12).Draw(t, "sm.until")
		if c.TB2 != -1000 {
			c.TB2 = c.Until2 - 2*rapid.IntRange(1, 14).Draw(t, "sm.window")
		}
	}
	return c
}

// checkSeqAgainst verifies that seq holds, for every grid index in the model
// that must be present, exactly the model's value, and nothing that the model
// lacks (within [lo, hi]).
func checkSeqAgainst(what string, seq encoding.Sequence, e expr.Expr, ex *h.Ex, res int64, model map[int][]float64, must func(idx int) bool, may func(idx int) bool, lo, hi int) error {
	return checkSeqAgainstOpt(what, seq, e, ex, res, model, must, may, lo, hi, true)
}

// checkSeqAgainstOpt: with checkOptional false, periods that need not be
// retained (already expired under truncateBefore) may hold anything an
// operand contributed.
func checkSeqAgainstOpt(what string, seq encoding.Sequence, e expr.Expr, ex *h.Ex, res int64, model map[int][]float64, must func(idx int) bool, may func(idx int) bool, lo, hi int, checkOptional bool) error {
	for idx := lo; idx <= hi; idx++ {
		gv, gok := seq.ValueAtTime(gridTime(res, idx), e, time.Duration(res))
		samples, present := model[idx]
		if present && must(idx) {
			wv, wok := evalSamples(ex, samples)
			if gok != wok || (gok && !h.FloatEq(gv, wv)) {
				return fmt.Errorf("%s: period %d: got (%v, set=%v) want (%v, set=%v)", what, idx, gv, gok, wv, wok)
			}
			continue
		}
		if gok {
			if !present {
				return fmt.Errorf("%s: period %d holds %v but no operand has data there", what, idx, gv)
			}
			if !may(idx) {
				return fmt.Errorf("%s: period %d holds %v but lies outside the requested range", what, idx, gv)
			}
			if !checkOptional {
				continue
			}
			wv, wok := evalSamples(ex, samples)
			if !wok || !h.FloatEq(gv, wv) {
				return fmt.Errorf("%s: period %d (optional) holds %v, want %v", what, idx, gv, wv)
			}
		}
	}
	return nil
}

func unionModel(ms ...map[int][]float64) map[int][]float64 {
	out := map[int][]float64{}
	for _, m := range ms {
		for k, v := range m {
			out[k] = append(append([]float64(nil), out[k]...), v...)
		}
	}
	return out
}

func runC05Seq(c *C05SeqCase) error {
	ex := seqExprs[c.ExKind]
	e, err := h.BuildExpr(ex)
	if err != nil {
		return fmt.Errorf("%w: %v", errSetup, err)
	}
	res := c.ResNS
	w := e.EncodedWidth()
	a := c.A.build(e, res)
	b := c.B.build(e, res)
	ca := append(encoding.Sequence(nil), a...)
	cb := append(encoding.Sequence(nil), b...)
	unchanged := func(what string) error {
		if !bytes.Equal(ca, a) || !bytes.Equal(cb, b) {
			return fmt.Errorf("%s modified one of its operands", what)
		}
		return nil
	}
	always := func(int) bool { return true }
	switch c.Op {
	case "merge":
		tb := halfTime(res, c.TB2)
		// a period ending at grid index idx is retained iff its end lies after tb
		must := func(idx int) bool { return c.TB2 == -1000 || 2*idx > c.TB2 }
		m := a.Merge(b, e, time.Duration(res), tb)
		if err := unchanged("Merge"); err != nil {
			return err
		}
		model := unionModel(c.A.model(), c.B.model())
		if err := checkSeqAgainstOpt("Merge(a,b)", m, e, ex, res, model, must, always, -12, 14, false); err != nil {
			return err
		}
		m2 := b.Merge(a, e, time.Duration(res), tb)
		if err := unchanged("Merge"); err != nil {
			return err
		}
		if err := checkSeqAgainstOpt("Merge(b,a)", m2, e, ex, res, model, must, always, -12, 14, false); err != nil {
			return err
		}
		if c.C != nil {
			cc := c.C.build(e, res)
			model3 := unionModel(model, c.C.model())
			m3 := m.Merge(cc, e, time.Duration(res), tb)
			if err := checkSeqAgainstOpt("Merge(Merge(a,b),c)", m3, e, ex, res, model3, must, always, -12, 14, false); err != nil {
				return err
			}
			m4 := a.Merge(b.Merge(cc, e, time.Duration(res), tb), e, time.Duration(res), tb)
			if err := unchanged("Merge"); err != nil {
				return err
			}
			if err := checkSeqAgainstOpt("Merge(a,Merge(b,c))", m4, e, ex, res, model3, must, always, -12, 14, false); err != nil {
				return err
			}
		}
	case "truncate":
		asOf := halfTime(res, c.TB2)
		until := halfTime(res, c.Until2)
		r := a.Truncate(w, time.Duration(res), asOf, until)
		if err := unchanged("Truncate"); err != nil {
			return err
		}
		// period idx covers (idx-1, idx]; in half units (2idx-2, 2idx]
		must := func(idx int) bool {
			return (c.TB2 == -1000 || 2*idx-2 >= c.TB2) && (c.Until2 == -1000 || 2*idx <= c.Until2)
		}
		may := func(idx int) bool {
			return (c.TB2 == -1000 || 2*idx > c.TB2) && (c.Until2 == -1000 || 2*idx-2 < c.Until2)
		}
		if err := checkSeqAgainst("Truncate", r, e, ex, res, c.A.model(), must, may, -12, 14); err != nil {
			return err
		}
	case "submerge":
		R := res * int64(c.Scale)
		asOf := halfTime(res, c.TB2)
		until := halfTime(res, c.Until2)
		sm := e.SubMergers([]expr.Expr{e})[0]
		if sm == nil {
			return fmt.Errorf("%w: no submerger", errSetup)
		}
		var out encoding.Sequence
		out = out.SubMerge(a, nil, time.Duration(R), time.Duration(res), e, e, sm, asOf, until, 0)
		out = out.SubMerge(b, nil, time.Duration(R), time.Duration(res), e, e, sm, asOf, until, 0)
		if err := unchanged("SubMerge"); err != nil {
			return err
		}
		untilIdx := c.Until2 / 2
		fine := unionModel(c.A.model(), c.B.model())
		coarse := map[int][]float64{} // k -> samples of bucket ending at until - k*R
		for idx, samples := range fine {
			if idx > untilIdx {
				continue
			}
			if c.TB2 != -1000 && 2*idx <= c.TB2 {
				continue
			}
			k := (untilIdx - idx) / c.Scale
			coarse[k] = append(coarse[k], samples...)
		}
		for k := 0; k <= 30; k++ {
			T := time.Unix(0, seqBase+int64(untilIdx)*res-int64(k)*R)
			gv, gok := out.ValueAtTime(T, e, time.Duration(R))
			samples, present := coarse[k]
			if !present {
				if gok {
					return fmt.Errorf("SubMerge: coarse bucket %d (ending %d fine periods before until) holds %v but no fine period inside the window falls in it", k, k*c.Scale, gv)
				}
				continue
			}
			wv, wok := evalSamples(ex, samples)
			if gok != wok || (gok && !h.FloatEq(gv, wv)) {
				return fmt.Errorf("SubMerge: coarse bucket %d: got (%v, set=%v) want (%v, set=%v)", k, gv, gok, wv, wok)
			}
		}
	}
	return nil
}

func classifyC05Seq(c *C05SeqCase) (bool, []string) {
	labels := []string{"op-" + c.Op}
	la, lb := len(c.A.Samples), len(c.B.Samples)
	overlap, gap := false, false
	if la > 0 && lb > 0 {
		aLo, aHi := c.A.Until-la+1, c.A.Until
		bLo, bHi := c.B.Until-lb+1, c.B.Until
		if aLo <= bHi && bLo <= aHi {
			overlap = true
		}
		if aLo > bHi+1 || bLo > aHi+1 {
			gap = true
		}
	}
	if overlap {
		labels = append(labels, "overlap")
	}
	if gap {
		labels = append(labels, "gap")
	}
	nt := false
	switch c.Op {
	case "merge":
		nt = la > 0 && lb > 0 && (overlap || gap)
	case "truncate":
		nt = la >= 2 && (c.TB2 != -1000 || c.Until2 != -1000)
		if c.TB2%2 != 0 || c.Until2%2 != 0 {
			labels = append(labels, "unaligned-bound")
		}
	case "submerge":
		nt = la+lb >= 2 && c.Scale > 1
	}
	return nt, labels
}

func TestC05Seq(t *testing.T) {
	rec := h.NewRec(t, "TestC05Seq")
	rapid.Check(t, func(rt *rapid.T) {
		c := genC05Seq(rt)
		nt, labels := classifyC05Seq(&c)
		err := runC05Seq(&c)
		if outcome(rec, rt, &c, nt, labels, err) {
			rt.Fatalf("%v", err)
		}
	})
}

// TestC05SeqExhaustive enumerates a bounded window completely: every pair of
// series with until in [0,4], length in [0,3], every set-mask, against every
// truncation bound on the grid and half-grid, for Merge and Truncate.
func TestC05SeqExhaustive(t *testing.T) {
	rec := h.NewRec(t, "TestC05SeqExhaustive")
	var specs []SeqSpec
	for until := 0; until <= 4; until++ {
		for n := 0; n <= 3; n++ {
			for mask := 0; mask < 1<<uint(n); mask++ {
				s := SeqSpec{Until: until}
				for i := 0; i < n; i++ {
					if mask&(1<<uint(i)) != 0 {
						s.Samples = append(s.Samples, []float64{float64(i + 1 + until)})
					} else {
						s.Samples = append(s.Samples, nil)
					}
				}
				specs = append(specs, s)
				if n == 0 {
					break
				}
			}
		}
	}
	bounds := []int{-1000}
	for b := -6; b <= 11; b++ {
		bounds = append(bounds, b)
	}
	fails := 0
	for _, exKind := range []int{0, 1} {
		for ai, a := range specs {
			for _, tb := range bounds {
				// truncate with (asOf, until) over a
				for _, un := range bounds {
					c := C05SeqCase{Op: "truncate", ExKind: exKind, ResNS: 1e9, A: a, TB2: tb, Until2: un, Scale: 1}
					nt, _ := classifyC05Seq(&c)
					rec.CountKeyed(fmt.Sprintf("t/%d/%d/%d/%d", exKind, ai, tb, un), nt, "op-truncate")
					if err := runC05Seq(&c); err != nil && fails < 3 {
						fails++
						rec.FailKeep("TestC05Seq", &c, err.Error(), "")
						t.Errorf("%v", err)
					}
				}
				if exKind == 1 && ai%3 != 0 {
					continue
				}
				for bi, b := range specs {
					c := C05SeqCase{Op: "merge", ExKind: exKind, ResNS: 1e9, A: a, B: b, TB2: tb, Until2: -1000, Scale: 1}
					nt, _ := classifyC05Seq(&c)
					rec.CountKeyed(fmt.Sprintf("m/%d/%d/%d/%d", exKind, ai, bi, tb), nt, "op-merge")
					if err := runC05Seq(&c); err != nil && fails < 3 {
						fails++
						rec.FailKeep("TestC05Seq", &c, err.Error(), "")
						t.Errorf("%v", err)
					}
				}
			}
		}
	}
	rec.Extra("exhaustive_window", "Merge: all pairs of series with until in [0,4], length<=3, all set-masks x truncateBefore in {zero} U [-3,5.5] step 0.5 periods; Truncate: all such series x all (asOf, until) pairs of those bounds")
	rec.Sample(C05SeqCase{Op: "merge", ResNS: 1e9, A: specs[len(specs)-1], B: specs[3], TB2: 1, Until2: -1000, Scale: 1})
}

func init() {
	register("TestC05Seq", func(raw json.RawMessage) error {
		var c C05SeqCase
		if err := json.Unmarshal(raw, &c); err != nil {
			return err
		}
		return runC05Seq(&c)
	})
}
