package checks

import (
	"context"
	"encoding/json"
	"fmt"
	"sort"
	"testing"
	"time"

	"github.com/getlantern/bytemap"
	"github.com/getlantern/zenodb/core"
	"github.com/getlantern/zenodb/expr"

	"verifharness/h"

	"pgregory.net/rapid"
)

// SRow is a generated flat row.
type SRow struct {
	TS   int64     `json:"ts"`
	Dims []h.KV    `json:"d,omitempty"`
	Vals []float64 `json:"v"`
}

// C09Case is a row set with an ORDER BY key list and LIMIT/OFFSET.
type C09Case struct {
	Rows   []SRow       `json:"rows"`
	NF     int          `json:"nf"`
	Order  []h.OrderKey `json:"order"`
	Limit  int          `json:"limit"`
	Offset int          `json:"offset"`
}

type memFlatSource struct {
	fields core.Fields
	rows   []*core.FlatRow
}

func (s *memFlatSource) GetGroupBy() []core.GroupBy   { return nil }
func (s *memFlatSource) GetResolution() time.Duration { return time.Second }
func (s *memFlatSource) GetAsOf() time.Time           { return time.Time{} }
func (s *memFlatSource) GetUntil() time.Time          { return time.Time{} }
func (s *memFlatSource) String() string               { return "mem" }
func (s *memFlatSource) Iterate(ctx context.Context, onFields core.OnFields, onRow core.OnFlatRow) (interface{}, error) {
	if err := onFields(s.fields); err != nil {
		return nil, err
	}
	for _, r := range s.rows {
		more, err := onRow(r)
		if err != nil || !more {
			return nil, err
		}
	}
	return nil, nil
}

func genOrderKeys(t *rapid.T, candidates []string) []h.OrderKey {
	n := rapid.IntRange(1, 4).Draw(t, "nkeys")
	var keys []h.OrderKey
	for i := 0; i < n; i++ {
		keys = append(keys, h.OrderKey{Field: rapid.SampledFrom(candidates).Draw(t, fmt.Sprintf("key%d", i)), Desc: rapid.Bool().Draw(t, fmt.Sprintf("desc%d", i))})
	}
	return keys
}

func genC09(t *rapid.T) C09Case {
	c := C09Case{NF: rapid.IntRange(1, 3).Draw(t, "nf")}
	n := rapid.IntRange(0, 14).Draw(t, "nrows")
	for i := 0; i < n; i++ {
		r := SRow{TS: int64(rapid.IntRange(0, 3).Draw(t, fmt.Sprintf("ts%d", i))) * 1e9}
		for _, dn := range []string{"da", "db"} {
			if rapid.IntRange(0, 4).Draw(t, fmt.Sprintf("has%s%d", dn, i)) > 0 {
				r.Dims = append(r.Dims, h.KV{N: dn, V: h.DimVal(t, dn, fmt.Sprintf("%s%d", dn, i))})
			}
		}
		for f := 0; f < c.NF; f++ {
			r.Vals = append(r.Vals, float64(rapid.IntRange(0, 2).Draw(t, fmt.Sprintf("v%d_%d", i, f))))
		}
		c.Rows = append(c.Rows, r)
	}
	cands := []string{"_time", "_time", "da", "db"}
	for f := 0; f < c.NF; f++ {
		cands = append(cands, fmt.Sprintf("f%d", f))
	}
	c.Order = genOrderKeys(t, cands)
	if rapid.Bool().Draw(t, "haslimit") {
		c.Limit = rapid.IntRange(0, n+3).Draw(t, "limit")
		c.Offset = rapid.IntRange(0, n+3).Draw(t, "offset")
	}
	return c
}

// cmpRows is the reference comparator: lexicographic over the key list; a
// missing dimension sorts before any value; DESC reverses the key.
func cmpRows(order []h.OrderKey, fieldIdx map[string]int, a, b *SRow) int {
	for _, k := range order {
		r := 0
		if k.Field == "_time" {
			switch {
			case a.TS < b.TS:
				r = -1
			case a.TS > b.TS:
				r = 1
			}
		} else if i, ok := fieldIdx[k.Field]; ok {
			switch {
			case a.Vals[i] < b.Vals[i]:
				r = -1
			case a.Vals[i] > b.Vals[i]:
				r = 1
			}
		} else {
			av, aok := dimOf(a, k.Field)
			bv, bok := dimOf(b, k.Field)
			switch {
			case !aok && !bok:
				r = 0
			case !aok:
				r = -1
			case !bok:
				r = 1
			default:
				r = cmpValOrd(av, bv)
			}
		}
		if k.Desc {
			r = -r
		}
		if r != 0 {
			return r
		}
	}
	return 0
}

func dimOf(r *SRow, n string) (h.Val, bool) {
	for _, kv := range r.Dims {
		if kv.N == n && kv.V.K != "nil" {
			return kv.V, true
		}
	}
	return h.Val{}, false
}

func cmpValOrd(a, b h.Val) int {
	switch a.K {
	case "str":
		switch {
		case a.S < b.S:
			return -1
		case a.S > b.S:
			return 1
		}
	case "int":
		switch {
		case a.I < b.I:
			return -1
		case a.I > b.I:
			return 1
		}
	case "bool":
		switch {
		case !a.B && b.B:
			return -1
		case a.B && !b.B:
			return 1
		}
	}
	return 0
}

func rowID(r *SRow) string {
	// not JSON: json.Marshal refuses NaN and infinities
	return fmt.Sprintf("{ts:%d dims:%+v vals:%v}", r.TS, r.Dims, r.Vals)
}

// checkOrdered validates an output sequence against the property: permutation
// (or correct slice) of the input, sorted under the key list.
func checkOrdered(order []h.OrderKey, fieldIdx map[string]int, in []SRow, out []SRow, limit, offset int) error {
	// sub-multiset
	counts := map[string]int{}
	for i := range in {
		counts[rowID(&in[i])]++
	}
	for i := range out {
		id := rowID(&out[i])
		counts[id]--
		if counts[id] < 0 {
			return fmt.Errorf("output row %d %s is not in the unordered result (or is duplicated)", i, id)
		}
	}
	total := len(in)
	want := total - offset
	if want < 0 {
		want = 0
	}
	if limit > 0 && want > limit {
		want = limit
	}
	if len(out) != want {
		return fmt.Errorf("got %d rows, want %d (total %d, limit %d, offset %d)", len(out), want, total, limit, offset)
	}
	// NaN (LN/LOG of a negative aggregate) in an ORDER BY field: comparisons
	// with NaN are all false, so there is no order to check against; only the
	// multiset and count conditions above apply
	for _, k := range order {
		if idx, ok := fieldIdx[k.Field]; ok {
			for i := range in {
				if idx < len(in[i].Vals) && in[i].Vals[idx] != in[i].Vals[idx] {
					return nil
				}
			}
		}
	}
	for i := 1; i < len(out); i++ {
		if len(order) > 0 && cmpRows(order, fieldIdx, &out[i-1], &out[i]) > 0 {
			return fmt.Errorf("rows %d and %d are out of order under %v: %s then %s", i-1, i, order, rowID(&out[i-1]), rowID(&out[i]))
		}
	}
	if len(order) > 0 {
		ref := append([]SRow(nil), in...)
		sort.SliceStable(ref, func(i, j int) bool { return cmpRows(order, fieldIdx, &ref[i], &ref[j]) < 0 })
		for i := range out {
			if cmpRows(order, fieldIdx, &out[i], &ref[offset+i]) != 0 {
				return fmt.Errorf("row %d is not key-equivalent to row %d of the ordered result: got %s want %s", i, offset+i, rowID(&out[i]), rowID(&ref[offset+i]))
			}
		}
	}
	return nil
}

func runC09(c *C09Case) error {
	fields := make(core.Fields, c.NF)
	fieldIdx := map[string]int{}
	for f := 0; f < c.NF; f++ {
		name := fmt.Sprintf("f%d", f)
		fields[f] = core.NewField(name, expr.FIELD(name))
		fieldIdx[name] = f
	}
	src := &memFlatSource{fields: fields}
	for i := range c.Rows {
		r := &c.Rows[i]
		m := map[string]interface{}{}
		for _, kv := range r.Dims {
			m[kv.N] = kv.V.Go()
		}
		fr := &core.FlatRow{TS: r.TS, Key: bytemap.New(m), Values: append([]float64(nil), r.Vals...)}
		fr.SetFields(fields)
		src.rows = append(src.rows, fr)
	}
	// same composition as planner.addOrderLimitOffset
	var flat core.FlatRowSource = src
	by := make([]core.OrderBy, len(c.Order))
	for i, k := range c.Order {
		by[i] = core.NewOrderBy(k.Field, k.Desc)
	}
	if len(by) > 0 {
		flat = core.Sort(flat, by...)
	}
	if c.Offset > 0 {
		flat = core.Offset(flat, c.Offset)
	}
	if c.Limit > 0 {
		flat = core.Limit(flat, c.Limit)
	}
	var out []SRow
	_, err := flat.Iterate(context.Background(), core.FieldsIgnored, func(row *core.FlatRow) (bool, error) {
		o := SRow{TS: row.TS, Vals: append([]float64(nil), row.Values...)}
		m := row.Key.AsMap()
		for _, dn := range []string{"da", "db"} {
			if v, ok := m[dn]; ok {
				switch t := v.(type) {
				case string:
					o.Dims = append(o.Dims, h.KV{N: dn, V: h.StrV(t)})
				case int:
					o.Dims = append(o.Dims, h.KV{N: dn, V: h.IntV(int64(t))})
				}
			}
		}
		out = append(out, o)
		return true, nil
	})
	if err != nil {
		return fmt.Errorf("iterate error: %v", err)
	}
	return checkOrdered(c.Order, fieldIdx, c.Rows, out, c.Limit, c.Offset)
}

func classifyC09(c *C09Case) (bool, []string) {
	var labels []string
	timePos := -1
	for i, k := range c.Order {
		if k.Field == "_time" && timePos < 0 {
			timePos = i
		}
	}
	if timePos >= 0 && timePos < len(c.Order)-1 {
		labels = append(labels, "time-nonfinal")
	}
	fieldIdx := map[string]int{}
	for f := 0; f < c.NF; f++ {
		fieldIdx[fmt.Sprintf("f%d", f)] = f
	}
	tie := false
	if len(c.Order) >= 2 {
		first := c.Order[:1]
		for i := range c.Rows {
			for j := i + 1; j < len(c.Rows); j++ {
				if cmpRows(first, fieldIdx, &c.Rows[i], &c.Rows[j]) == 0 && cmpRows(c.Order, fieldIdx, &c.Rows[i], &c.Rows[j]) != 0 {
					tie = true
				}
			}
		}
	}
	if tie {
		labels = append(labels, "tie-on-first-key")
	}
	if c.Limit > 0 || c.Offset > 0 {
		labels = append(labels, "limit-offset")
	}
	if c.Offset >= len(c.Rows) && c.Offset > 0 {
		labels = append(labels, "offset-beyond")
	}
	return tie, labels
}

func TestC09Core(t *testing.T) {
	rec := h.NewRec(t, "TestC09Core")
	rapid.Check(t, func(rt *rapid.T) {
		c := genC09(rt)
		nt, labels := classifyC09(&c)
		err := runC09(&c)
		if outcome(rec, rt, &c, nt, labels, err) {
			rt.Fatalf("%v", err)
		}
	})
}

func init() {
	register("TestC09Core", func(raw json.RawMessage) error {
		var c C09Case
		if err := json.Unmarshal(raw, &c); err != nil {
			return err
		}
		return runC09(&c)
	})
}

// C09SQLCase is a dataset and an ordered query over its first table.
type C09SQLCase struct {
	Data   DataCase     `json:"data"`
	Order  []h.OrderKey `json:"order"`
	Limit  int          `json:"limit"`
	Offset int          `json:"offset"`
}

func genC09SQL(t *rapid.T) C09SQLCase {
	cfg := &h.GenCfg{MaxPoints: 25, MaxPeriods: 4, MaxTables: 1, MaxFields: 3, NamedGroupOnly: true, FixedRes: 1e9}
	c := C09SQLCase{Data: genData(t, cfg)}
	cands := []string{"_time", "_time", "_points"}
	cands = append(cands, c.Data.Schema.Tables[0].GroupBy...)
	cands = append(cands, tableFieldNames(&c.Data.Schema, "ta")...)
	c.Order = genOrderKeys(t, cands)
	if rapid.Bool().Draw(t, "haslimit") {
		c.Limit = rapid.IntRange(0, 12).Draw(t, "limit")
		c.Offset = rapid.IntRange(0, 12).Draw(t, "offset")
	}
	return c
}

func refToSRows(res *h.Result, names []string) []SRow {
	out := make([]SRow, 0, len(res.Rows))
	for _, r := range res.Rows {
		s := SRow{TS: r.TS}
		for _, dn := range h.DimNames {
			switch t := r.KeyMap[dn].(type) {
			case string:
				s.Dims = append(s.Dims, h.KV{N: dn, V: h.StrV(t)})
			case int:
				s.Dims = append(s.Dims, h.KV{N: dn, V: h.IntV(int64(t))})
			case bool:
				s.Dims = append(s.Dims, h.KV{N: dn, V: h.BoolV(t)})
			}
		}
		for _, n := range names {
			s.Vals = append(s.Vals, r.Vals[n])
		}
		out = append(out, s)
	}
	return out
}

func runC09SQL(c *C09SQLCase) error {
	return c.Data.withDB("c09", h.DBConf{}, func(db *h.DB) error {
		base, err := db.Query("SELECT * FROM ta", h.QueryOpts{Mem: true})
		if err != nil {
			return fmt.Errorf("unordered query failed: %v", err)
		}
		q := h.Query{Fields: []h.QField{{Star: true}}, From: "ta", OrderBy: c.Order, Limit: c.Limit, Offset: c.Offset}
		res, err := db.Query(q.SQL(), h.QueryOpts{Mem: true})
		if err != nil {
			return fmt.Errorf("%s: error %v", q.SQL(), err)
		}
		names := base.Fields
		fieldIdx := map[string]int{}
		for i, n := range names {
			fieldIdx[n] = i
		}
		if err := checkOrdered(c.Order, fieldIdx, refToSRows(base, names), refToSRows(res, names), c.Limit, c.Offset); err != nil {
			return fmt.Errorf("%s: %v", q.SQL(), err)
		}
		// unordered LIMIT/OFFSET: any n rows of the result
		if c.Limit > 0 || c.Offset > 0 {
			q2 := h.Query{Fields: []h.QField{{Star: true}}, From: "ta", Limit: c.Limit, Offset: c.Offset}
			res2, err := db.Query(q2.SQL(), h.QueryOpts{Mem: true})
			if err != nil {
				return fmt.Errorf("%s: error %v", q2.SQL(), err)
			}
			if err := checkOrdered(nil, fieldIdx, refToSRows(base, names), refToSRows(res2, names), c.Limit, c.Offset); err != nil {
				return fmt.Errorf("%s: %v", q2.SQL(), err)
			}
		}
		return nil
	})
}

func TestC09SQL(t *testing.T) {
	rec := h.NewRec(t, "TestC09SQL")
	rapid.Check(t, func(rt *rapid.T) {
		c := genC09SQL(rt)
		labels := c.Data.splitLabels()
		timeNonFinal := false
		for i, k := range c.Order {
			if k.Field == "_time" && i < len(c.Order)-1 {
				timeNonFinal = true
			}
		}
		if timeNonFinal {
			labels = append(labels, "time-nonfinal")
		}
		if c.Limit > 0 || c.Offset > 0 {
			labels = append(labels, "limit-offset")
		}
		nt := len(c.Order) >= 2 && len(c.Data.Points) >= 3
		err := runC09SQL(&c)
		if outcome(rec, rt, &c, nt, labels, err) {
			rt.Fatalf("%v", err)
		}
	})
}

func init() {
	register("TestC09SQL", func(raw json.RawMessage) error {
		var c C09SQLCase
		if err := json.Unmarshal(raw, &c); err != nil {
			return err
		}
		return runC09SQL(&c)
	})
}
