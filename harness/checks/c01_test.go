package checks

import (
	"encoding/json"
	"fmt"
	"testing"
	"time"

	"verifharness/h"

	"pgregory.net/rapid"
)

// Op is one step of a generated history.
type Op struct {
	K  string   `json:"k"` // ins flush sleep
	P  *h.Point `json:"p,omitempty"`
	MS int      `json:"ms,omitempty"`
}

// C01Case is a schema plus a history of inserts and flushes.
type C01Case struct {
	Schema h.Schema `json:"schema"`
	Ops    []Op     `json:"ops"`
}

func genC01(t *rapid.T, excluded *int) C01Case {
	maxPts := 40
	if h.Thorough() {
		maxPts = 120
	}
	cfg := &h.GenCfg{MaxPoints: maxPts, MaxPeriods: 8, MaxTables: 3, MaxFields: 4, AllowView: true, AllowWhere: true, AllowMixed: true, AllowPct: true, AllowTimer: true, AllowIf: true, AllowConst: false, Excluded: excluded}
	c := C01Case{Schema: h.GenSchema(t, cfg)}
	n := rapid.IntRange(0, maxPts).Draw(t, "npoints")
	for i := 0; i < n; i++ {
		switch rapid.IntRange(0, 11).Draw(t, fmt.Sprintf("op%d", i)) {
		case 0:
			c.Ops = append(c.Ops, Op{K: "flush"})
		case 1:
			c.Ops = append(c.Ops, Op{K: "sleep", MS: rapid.IntRange(1, 8).Draw(t, fmt.Sprintf("ms%d", i))})
		}
		p := h.GenPoint(t, cfg, &c.Schema, cfg.MaxPeriods, fmt.Sprintf("p%d", i))
		c.Ops = append(c.Ops, Op{K: "ins", P: &p})
	}
	return c
}

// expectedRows computes, per table, the reference rows for the inserted points.
func expectedRows(s *h.Schema, pts []h.Point, arrayRule bool) map[string][]h.RefRow {
	return expectedRowsWith(s, pts, func(p h.Point) []h.SubPoint { return h.SubPointsOf(p, arrayRule) })
}

func expectedRowsWith(s *h.Schema, pts []h.Point, split func(h.Point) []h.SubPoint) map[string][]h.RefRow {
	out := map[string][]h.RefRow{}
	for i := range s.Tables {
		sem := h.SemFor(s, s.Tables[i].Name)
		var sps []h.SubPoint
		for _, p := range pts {
			for _, sp := range split(p) {
				if sem.Accepts(sp.Dims) {
					sps = append(sps, sp)
				}
			}
		}
		out[s.Tables[i].Name] = sem.Aggregate(sps)
	}
	return out
}

func classifyC01(c *C01Case) (bool, []string) {
	var labels []string
	var pts []h.Point
	boundary, outOfOrder, flushBetween := false, false, false
	var lastTS int64
	sawFlush := false
	for _, op := range c.Ops {
		switch op.K {
		case "ins":
			pts = append(pts, *op.P)
			if op.P.TS < lastTS {
				outOfOrder = true
			}
			lastTS = op.P.TS
			for _, t := range c.Schema.Tables {
				if t.ResNS > 0 && h.PeriodEnd(op.P.TS, t.ResNS) == op.P.TS {
					boundary = true
				}
			}
			if sawFlush {
				flushBetween = true
			}
		case "flush", "sleep":
			if len(pts) > 0 {
				sawFlush = true
			}
		}
	}
	shared := false
	for _, rows := range expectedRows(&c.Schema, pts, false) {
		for _, r := range rows {
			if r.Vals["_points"] >= 2 {
				shared = true
			}
		}
	}
	timer := false
	for _, t := range c.Schema.Tables {
		if t.MaxFlushNS > 0 {
			timer = true
		}
		if t.ViewOf != "" {
			labels = append(labels, "view")
		}
		if t.Where != nil {
			labels = append(labels, "where")
		}
	}
	if boundary {
		labels = append(labels, "boundary-ts")
	}
	if outOfOrder {
		labels = append(labels, "out-of-order")
	}
	if flushBetween {
		labels = append(labels, "flush-between-points")
	}
	if timer {
		labels = append(labels, "timer-flush")
	}
	if len(c.Schema.Tables) >= 2 {
		labels = append(labels, "multi-table")
	}
	if shared {
		labels = append(labels, "shared-key-period")
	}
	nt := shared && (boundary || outOfOrder || flushBetween || len(c.Schema.Tables) >= 2)
	return nt, labels
}

// runC01 executes the history and compares every table with the reference.
func runC01(c *C01Case) error {
	return runC01With(c, func(p h.Point) []h.SubPoint { return h.SubPointsOf(p, false) })
}

func runC01With(c *C01Case, split func(h.Point) []h.SubPoint) error {
	dir := h.ScratchDir("c01")
	defer removeAll(dir)
	db, err := h.OpenDB(dir, &c.Schema, h.DBConf{}, nil)
	if err != nil {
		return fmt.Errorf("%w: open: %v", errSetup, err)
	}
	defer db.Close()
	var pts []h.Point
	for _, op := range c.Ops {
		switch op.K {
		case "ins":
			if err := db.Insert("inbound", *op.P); err != nil {
				return fmt.Errorf("insert returned error for a valid point: %v", err)
			}
			pts = append(pts, *op.P)
		case "flush":
			db.Flush()
		case "sleep":
			time.Sleep(time.Duration(op.MS) * time.Millisecond)
		}
	}
	if err := db.Quiesce(); err != nil {
		return err
	}
	want := expectedRowsWith(&c.Schema, pts, split)
	for _, t := range c.Schema.Tables {
		res, err := db.Query("SELECT * FROM "+t.Name, h.QueryOpts{Mem: true})
		if err != nil {
			if h.IsInconclusive(err) {
				return err
			}
			return fmt.Errorf("table %s: query error: %v", t.Name, err)
		}
		if d := h.DiffRows(want[t.Name], res.Rows, nil); d != "" {
			return fmt.Errorf("table %s (%s): %s", t.Name, t.SQL(), d)
		}
	}
	return nil
}

func TestC01(t *testing.T) {
	rec := h.NewRec(t, "TestC01")
	excluded := 0
	defer func() { rec.Excluded(excluded) }()
	probesC01(rec)
	rapid.Check(t, func(rt *rapid.T) {
		c := genC01(rt, &excluded)
		nt, labels := classifyC01(&c)
		err := runC01(&c)
		if outcome(rec, rt, &c, nt, labels, err) {
			rt.Fatalf("%v", err)
		}
	})
}

func init() {
	register("TestC01", func(raw json.RawMessage) error {
		var c C01Case
		if err := json.Unmarshal(raw, &c); err != nil {
			return err
		}
		return runC01(&c)
	})
}
