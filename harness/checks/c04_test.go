package checks

import (
	"encoding/json"
	"fmt"
	"testing"
	"time"

	"verifharness/h"

	"pgregory.net/rapid"
)

// C04Case: a stored dataset, a list of queries Q and a probe.
type C04Case struct {
	Data   DataCase   `json:"data"`
	Qs     []*h.Query `json:"qs"`
	QMem   []bool     `json:"qmem"`
	Probes []*h.Query `json:"probes"`
}

func c04Cfg() *h.GenCfg {
	maxPts := 30
	if h.Thorough() {
		maxPts = 80
	}
	return &h.GenCfg{MaxPoints: maxPts, MaxPeriods: 6, MaxTables: 2, MaxFields: 4, AllowWhere: true, AllowPct: true, AllowIf: true}
}

func genC04(t *rapid.T) C04Case {
	cfg := c04Cfg()
	c := C04Case{Data: genData(t, cfg)}
	s := &c.Data.Schema
	nq := rapid.IntRange(1, 3).Draw(t, "nq")
	for i := 0; i < nq; i++ {
		tbl := s.Tables[rapid.IntRange(0, len(s.Tables)-1).Draw(t, fmt.Sprintf("qt%d", i))].Name
		q := h.GenQuery(t, h.FullQ(cfg.MaxPeriods), s, tbl, fmt.Sprintf("q%d", i))
		// bias: a time range that ends before the newest stored period
		if rapid.IntRange(0, 1).Draw(t, fmt.Sprintf("early%d", i)) == 0 && len(c.Data.Points) > 0 {
			res := h.SemFor(s, tbl).Def.ResNS
			span := maxTS(c.Data.Points) - h.BaseTS
			off := rapid.Int64Range(0, span).Draw(t, fmt.Sprintf("until%d", i))
			target := q
			for target.FromSub != nil {
				target = target.FromSub
			}
			target.Until = &h.TimeSpec{Abs: h.PeriodEnd(h.BaseTS+off, res)}
			if target.AsOf == nil {
				// UNTIL needs an ASOF; start the window a few periods before the data
				target.AsOf = &h.TimeSpec{Abs: h.PeriodEnd(h.BaseTS, res) - 2*res}
			}
			if rapid.Bool().Draw(t, fmt.Sprintf("unal%d", i)) {
				target.Until.Abs += res / 3
			}
		}
		c.Qs = append(c.Qs, q)
		c.QMem = append(c.QMem, rapid.IntRange(0, 3).Draw(t, fmt.Sprintf("qmem%d", i)) > 0)
	}
	for _, tb := range s.Tables {
		c.Probes = append(c.Probes, &h.Query{Fields: []h.QField{{Star: true}}, From: tb.Name})
	}
	tbl := s.Tables[rapid.IntRange(0, len(s.Tables)-1).Draw(t, "pt")].Name
	c.Probes = append(c.Probes, h.GenQuery(t, h.FullQ(cfg.MaxPeriods), s, tbl, "probe"))
	return c
}

func runC04(c *C04Case) error {
	now := maxTS(c.Data.Points)
	return c.Data.withDB("c04", h.DBConf{}, func(db *h.DB) error {
		db.Z.VerifAdvanceClock(time.Unix(0, now))
		before, err := runQueries(db, c.Probes, true)
		if err != nil {
			return err
		}
		for i, q := range c.Qs {
			if _, err := db.Query(q.SQL(), h.QueryOpts{Mem: c.QMem[i]}); err != nil && h.IsInconclusive(err) {
				return err
			}
			after, err := runQueries(db, c.Probes, true)
			if err != nil {
				return err
			}
			for j, p := range c.Probes {
				if d := sameOutcome(p, before[j], after[j]); d != "" {
					return fmt.Errorf("query changed stored data: Q = %s (memstore=%v)\nprobe %s differs before/after Q:\n%s", q.SQL(), c.QMem[i], p.SQL(), d)
				}
			}
		}
		db.Flush()
		for _, mem := range []bool{true, false} {
			after, err := runQueries(db, c.Probes, mem)
			if err != nil {
				return err
			}
			for j, p := range c.Probes {
				if d := sameOutcome(p, before[j], after[j]); d != "" {
					return fmt.Errorf("after running %d queries and flushing, probe %s (memstore=%v) differs from its result before the queries:\n%s", len(c.Qs), p.SQL(), mem, d)
				}
			}
		}
		return nil
	})
}

func classifyC04(c *C04Case) (bool, []string) {
	labels := c.Data.splitLabels()
	newest := maxTS(c.Data.Points)
	early, regroup := false, false
	for _, q := range c.Qs {
		t := q
		for t.FromSub != nil {
			t = t.FromSub
		}
		if t.Until != nil && !t.Until.IsRel && t.Until.Abs < newest {
			early = true
		}
		if q.Regroups() {
			regroup = true
		}
	}
	if early {
		labels = append(labels, "until-before-newest")
	}
	if regroup {
		labels = append(labels, "regrouping-q")
	}
	memData := !has(labels, "disk-only") && len(c.Data.Points) > 0
	return len(c.Data.Points) >= 2 && ((early && memData) || regroup), labels
}

func TestC04(t *testing.T) {
	rec := h.NewRec(t, "TestC04")
	rapid.Check(t, func(rt *rapid.T) {
		c := genC04(rt)
		nt, labels := classifyC04(&c)
		err := runC04(&c)
		if outcome(rec, rt, &c, nt, labels, err) {
			rt.Fatalf("%v", err)
		}
	})
}

func init() {
	register("TestC04", func(raw json.RawMessage) error {
		var c C04Case
		if err := json.Unmarshal(raw, &c); err != nil {
			return err
		}
		return runC04(&c)
	})
}
