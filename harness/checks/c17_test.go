package checks

import (
	"bytes"
	"context"
	"encoding/json"
	"fmt"
	"io"
	"regexp"
	"strconv"
	"strings"
	"sync"
	"testing"
	"time"

	"verifharness/h"

	"github.com/getlantern/golog"
	"pgregory.net/rapid"
)

// C17: queries that are served by one shared scan each return what they
// return alone.

// C17Q is one of the concurrently issued queries.
type C17Q struct {
	Q        *h.Query `json:"q"`
	Mem      bool     `json:"mem"`
	Deadline string   `json:"deadline,omitempty"` // "" none, "far" generous, "past" already expired
	DelayMS  int      `json:"delay_ms"`           // arrival offset
}

type C17Case struct {
	Data       DataCase `json:"data"`
	CoalesceMS int      `json:"coalesce_ms"`
	Qs         []C17Q   `json:"qs"`
}

func c17Cfg() *h.GenCfg {
	maxPts := 30
	if h.Thorough() {
		maxPts = 70
	}
	return &h.GenCfg{MaxPoints: maxPts, MaxPeriods: 6, MaxTables: 2, MaxFields: 5, AllowWhere: true, AllowPct: true, AllowIf: true}
}

func genC17(t *rapid.T) C17Case {
	cfg := c17Cfg()
	c := C17Case{Data: genData(t, cfg), CoalesceMS: rapid.SampledFrom([]int{15, 25, 40}).Draw(t, "coalesce")}
	s := &c.Data.Schema
	nq := rapid.IntRange(2, 8).Draw(t, "nq")
	// most cases aim all queries at one table so that they share a scan
	oneTable := rapid.IntRange(0, 3).Draw(t, "onetable") > 0
	for i := 0; i < nq; i++ {
		label := fmt.Sprintf("q%d", i)
		ti := 0
		if !oneTable {
			ti = rapid.IntRange(0, len(s.Tables)-1).Draw(t, label+".t")
		}
		tbl := s.Tables[ti].Name
		var q *h.Query
		switch rapid.IntRange(0, 5).Draw(t, label+".shape") {
		case 0, 1:
			// the only shape that ends its part of the scan early
			q = &h.Query{Fields: []h.QField{{Star: true}}, From: tbl, Limit: rapid.IntRange(1, 6).Draw(t, label+".limit")}
		case 2:
			q = &h.Query{Fields: []h.QField{{Star: true}}, From: tbl}
		case 3:
			// field subset in a generated order
			names := append([]string{"_points"}, tableFieldNames(s, tbl)...)
			perm := rapid.Permutation(names).Draw(t, label+".perm")
			n := rapid.IntRange(1, len(perm)).Draw(t, label+".nf")
			q = &h.Query{From: tbl}
			for _, nm := range perm[:n] {
				q.Fields = append(q.Fields, h.QField{Name: nm})
			}
		default:
			q = h.GenQuery(t, h.FullQ(cfg.MaxPeriods), s, tbl, label)
		}
		cq := C17Q{Q: q, Mem: rapid.IntRange(0, 4).Draw(t, label+".mem") > 0}
		switch rapid.IntRange(0, 7).Draw(t, label+".dl") {
		case 0:
			cq.Deadline = "past"
		case 1, 2:
			cq.Deadline = "far"
		}
		if rapid.IntRange(0, 2).Draw(t, label+".late") == 0 {
			cq.DelayMS = rapid.IntRange(1, 2*c.CoalesceMS).Draw(t, label+".delay")
		}
		c.Qs = append(c.Qs, cq)
	}
	return c
}

// coalesceCounter extracts the batch sizes zenodb logs ("Coalescing N iterations").
type coalesceCounter struct {
	mx    sync.Mutex
	sizes []int
}

var coalesceRe = regexp.MustCompile(`Coalescing (\d+) iterations`)

func (w *coalesceCounter) Write(b []byte) (int, error) {
	if bytes.Contains(b, []byte("Coalescing ")) {
		for _, m := range coalesceRe.FindAllSubmatch(b, -1) {
			n, _ := strconv.Atoi(string(m[1]))
			w.mx.Lock()
			w.sizes = append(w.sizes, n)
			w.mx.Unlock()
		}
	}
	return len(b), nil
}

func (w *coalesceCounter) take() []int {
	w.mx.Lock()
	defer w.mx.Unlock()
	out := w.sizes
	w.sizes = nil
	return out
}

func (cq *C17Q) ctx() (context.Context, context.CancelFunc) {
	switch cq.Deadline {
	case "past":
		return context.WithDeadline(context.Background(), time.Now().Add(-time.Second))
	case "far":
		return context.WithDeadline(context.Background(), time.Now().Add(10*time.Minute))
	}
	return context.Background(), func() {}
}

func (cq *C17Q) run(db *h.DB, forceMem bool) qOutcome {
	ctx, cancel := cq.ctx()
	defer cancel()
	res, err := db.Query(cq.Q.SQL(), h.QueryOpts{Mem: cq.Mem || forceMem, Ctx: ctx})
	return qOutcome{res, err}
}

// memOnlyQueries: after a forced flush zenodb re-arms its flush timer to ten
// times the duration of that flush, so a dataset that is split between file
// and memstore moves to the file on its own a few milliseconds later and a
// disk-only query has no stable solo result. Disk-only queries are therefore
// issued only when nothing (no flush so far) or everything (flush after the
// last point) is on disk.
func (c *C17Case) memOnlyQueries() bool {
	return has(c.Data.splitLabels(), "disk+mem")
}

var c17Log = &coalesceCounter{}

func runC17(c *C17Case) (maxBatch int, err error) {
	now := maxTS(c.Data.Points)
	err = c.Data.withDB("c17", h.DBConf{CoalesceMS: c.CoalesceMS}, func(db *h.DB) error {
		db.Z.VerifAdvanceClock(time.Unix(0, now))
		forceMem := c.memOnlyQueries()
		solo := make([]qOutcome, len(c.Qs))
		for i := range c.Qs {
			solo[i] = c.Qs[i].run(db, forceMem)
			if solo[i].err != nil && h.IsInconclusive(solo[i].err) {
				return solo[i].err
			}
		}
		c17Log.take()
		conc := make([]qOutcome, len(c.Qs))
		var wg sync.WaitGroup
		start := time.Now()
		for i := range c.Qs {
			wg.Add(1)
			go func(i int) {
				defer wg.Done()
				if d := time.Duration(c.Qs[i].DelayMS)*time.Millisecond - time.Since(start); d > 0 {
					time.Sleep(d)
				}
				conc[i] = c.Qs[i].run(db, forceMem)
			}(i)
		}
		wg.Wait()
		for _, n := range c17Log.take() {
			if n > maxBatch {
				maxBatch = n
			}
		}
		for i := range c.Qs {
			if conc[i].err != nil && h.IsInconclusive(conc[i].err) {
				return conc[i].err
			}
		}
		// solo again afterwards: the comparison must not depend on anything but concurrency
		for i := range c.Qs {
			again := c.Qs[i].run(db, forceMem)
			if again.err != nil && h.IsInconclusive(again.err) {
				return again.err
			}
			if d := sameOutcome(c.Qs[i].Q, solo[i], again); d != "" {
				return fmt.Errorf("%w: query %d %s (memstore=%v deadline=%q) is not stable when run alone twice: %s", errSetup, i, c.Qs[i].Q.SQL(), c.Qs[i].Mem, c.Qs[i].Deadline, d)
			}
		}
		// a LIMIT without a total order may return any n rows of the unlimited
		// result, but they must be rows of it (right columns, right values)
		for i, cq := range c.Qs {
			if !cq.Q.HasLimit() || conc[i].err != nil || conc[i].res == nil || cq.Deadline == "past" {
				continue
			}
			unl := *cq.Q
			unl.Limit, unl.Offset = 0, 0
			full := (&C17Q{Q: &unl, Mem: cq.Mem}).run(db, forceMem)
			if full.err != nil {
				continue
			}
			if d := subMultiset(conc[i].res, full.res); d != "" {
				return fmt.Errorf("query [%d] %s (memstore=%v), issued together with %d other queries, returned a row that its unlimited form does not contain: %s", i, cq.Q.SQL(), cq.Mem, len(c.Qs)-1, d)
			}
		}
		for i, cq := range c.Qs {
			if d := sameOutcome(cq.Q, solo[i], conc[i]); d != "" {
				others := ""
				for j, o := range c.Qs {
					if j != i {
						others += fmt.Sprintf("\n    [%d] %s (memstore=%v deadline=%q delay=%dms)", j, o.Q.SQL(), o.Mem, o.Deadline, o.DelayMS)
					}
				}
				return fmt.Errorf("query [%d] %s (memstore=%v deadline=%q delay=%dms) returned something else when issued together with %d other queries (largest shared scan: %d queries) than when run alone\nalone vs together: %s\nother queries:%s",
					i, cq.Q.SQL(), cq.Mem, cq.Deadline, cq.DelayMS, len(c.Qs)-1, maxBatch, d, others)
			}
		}
		return nil
	})
	return maxBatch, err
}

func classifyC17(c *C17Case, maxBatch int) (bool, []string) {
	labels := c.Data.splitLabels()
	labels = append(labels, fmt.Sprintf("largest-shared-scan-%d", maxBatch))
	limit, past, diskOnly, subset := false, false, false, false
	for _, q := range c.Qs {
		if q.Q.Limit > 0 && !q.Q.Regroups() && len(q.Q.OrderBy) == 0 {
			limit = true
		}
		if q.Deadline == "past" {
			past = true
		}
		if !q.Mem && !c.memOnlyQueries() {
			diskOnly = true
		}
		if len(q.Q.Fields) > 0 && !q.Q.Fields[0].Star {
			subset = true
		}
	}
	if limit {
		labels = append(labels, "early-terminating-query")
	}
	if past {
		labels = append(labels, "expired-deadline-query")
	}
	if diskOnly {
		labels = append(labels, "disk-only-query")
	}
	if subset {
		labels = append(labels, "field-subset-query")
	}
	return maxBatch >= 2 && len(c.Data.Points) >= 2, labels
}

func TestC17(t *testing.T) {
	rec := h.NewRec(t, "TestC17")
	golog.SetOutputs(io.Discard, c17Log)
	defer golog.SetOutputs(io.Discard, io.Discard)
	rapid.Check(t, func(rt *rapid.T) {
		c := genC17(rt)
		maxBatch, err := runC17(&c)
		nt, labels := classifyC17(&c, maxBatch)
		if outcome(rec, rt, &c, nt, labels, err) {
			rt.Fatalf("%v", err)
		}
	})
}

func init() {
	register("TestC17", func(raw json.RawMessage) error {
		var c C17Case
		if err := json.Unmarshal(raw, &c); err != nil {
			return err
		}
		_, err := runC17(&c)
		return err
	})
}

// subMultiset reports a row of part that all does not contain (as a multiset).
func subMultiset(part, all *h.Result) string {
	if strings.Join(part.Fields, ",") != strings.Join(all.Fields, ",") {
		return fmt.Sprintf("field lists differ: %v vs %v", part.Fields, all.Fields)
	}
	avail := map[string]int{}
	canon := func(r h.RefRow) string {
		vals := make([]string, len(part.Fields))
		for i, f := range part.Fields {
			vals[i] = fmt.Sprintf("%.9g", r.Vals[f])
		}
		return fmt.Sprintf("%d|%s|%s", r.TS, r.Key, strings.Join(vals, ","))
	}
	for _, r := range all.Rows {
		avail[canon(r)]++
	}
	for _, r := range part.Rows {
		k := canon(r)
		if avail[k] == 0 {
			return r.String()
		}
		avail[k]--
	}
	return ""
}
