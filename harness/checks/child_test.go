package checks

import (
	"bytes"
	"context"
	"fmt"
	"os"
	"os/exec"
	"testing"
	"time"

	"github.com/getlantern/zenodb/sql"
)

// runChild re-executes the test binary to run one Test function in a child
// process with a virtual-memory cap, returning its combined output.
func runChild(test string, env []string, timeout time.Duration, vmemKB int) (string, bool, error) {
	ctx, cancel := context.WithTimeout(context.Background(), timeout)
	defer cancel()
	script := fmt.Sprintf("ulimit -v %d; exec %q -test.run '^%s$' -test.timeout 600s", vmemKB, os.Args[0], test)
	cmd := exec.CommandContext(ctx, "sh", "-c", script)
	cmd.Env = append(os.Environ(), env...)
	cmd.Env = append(cmd.Env, "VERIF_SHARD_OUT=")
	var out bytes.Buffer
	cmd.Stdout = &out
	cmd.Stderr = &out
	err := cmd.Run()
	timedOut := ctx.Err() == context.DeadlineExceeded
	return out.String(), timedOut, err
}

// TestC16ChildParse parses the statement in VERIF_CHILD_SQL (child process of
// the unterminated-backtick probe).
func TestC16ChildParse(t *testing.T) {
	s := os.Getenv("VERIF_CHILD_SQL")
	if s == "" {
		t.Skip("child only")
	}
	_, err := sql.Parse(s)
	fmt.Printf("CHILD-PARSE-RETURNED err=%v\n", err != nil)
}
