package checks

import (
	"encoding/json"
	"errors"
	"fmt"
	"os"
	"path/filepath"
	"sort"
	"strings"
	"testing"

	"verifharness/h"

	"pgregory.net/rapid"
)

var errSetup = errors.New("setup")

func removeAll(dir string) { os.RemoveAll(dir) }

var registry = map[string]func(json.RawMessage) error{}

func register(test string, fn func(json.RawMessage) error) { registry[test] = fn }

// outcome records a case and classifies its error. It returns true when the
// error is a violation that must fail the rapid property.
func outcome(rec *h.Rec, rt *rapid.T, c interface{}, nontrivial bool, labels []string, err error) bool {
	if err == nil {
		rec.Case(c, nontrivial, labels...)
		return false
	}
	if h.IsInconclusive(err) || errors.Is(err, errSetup) {
		// a bounded wait expired or the fixture could not be built: not a verdict
		if os.Getenv("VERIF_DEBUG") != "" {
			fmt.Fprintf(os.Stderr, "INCONCLUSIVE: %v\n", err)
			if b, jerr := json.Marshal(map[string]interface{}{"property": os.Getenv("VERIF_PROP"), "test": rt.Name(), "case": c, "message": err.Error()}); jerr == nil {
				os.MkdirAll("/tmp/verif-inconclusive", 0755)
				os.WriteFile(fmt.Sprintf("/tmp/verif-inconclusive/%s-%d.json", os.Getenv("VERIF_PROP"), len(b)), b, 0644)
			}
		}
		rec.Case(c, false, append(labels, "inconclusive")...)
		rec.Inconclusive()
		return false
	}
	rec.Case(c, nontrivial, labels...)
	rec.Fail(c, err.Error(), sigFor(err))
	return true
}

// sigFor maps a failure message onto the signature of a listed finding, if one
// claims it (see KNOWN_FINDINGS.txt); "" otherwise.
func sigFor(err error) string {
	var s interface{ Sig() string }
	if errors.As(err, &s) {
		return s.Sig()
	}
	return ""
}

type sigErr struct {
	sig string
	msg string
}

func (e *sigErr) Error() string { return e.msg }
func (e *sigErr) Sig() string   { return e.sig }

// TestReplay re-runs saved cases (VERIF_REPLAY=file or VERIF_REPLAY_DIR=dir)
// through the interpreter of the test that produced them; no generator runs.
func TestReplay(t *testing.T) {
	rec := h.NewRec(t, "TestReplay")
	var files []string
	if f := os.Getenv("VERIF_REPLAY"); f != "" {
		files = append(files, f)
	}
	if d := os.Getenv("VERIF_REPLAY_DIR"); d != "" {
		m, _ := filepath.Glob(filepath.Join(d, "*.json"))
		sort.Strings(m)
		files = append(files, m...)
	}
	for _, f := range files {
		b, err := os.ReadFile(f)
		if err != nil {
			t.Fatalf("read %s: %v", f, err)
		}
		var doc struct {
			Property string          `json:"property"`
			Test     string          `json:"test"`
			Case     json.RawMessage `json:"case"`
		}
		if err := json.Unmarshal(b, &doc); err != nil {
			t.Fatalf("parse %s: %v", f, err)
		}
		fn := registry[doc.Test]
		if fn == nil {
			t.Fatalf("%s: no interpreter registered for %q", f, doc.Test)
		}
		var runErr error
		for attempt := 0; attempt < 2; attempt++ {
			runErr = fn(doc.Case)
			if runErr == nil || !(h.IsInconclusive(runErr) || errors.Is(runErr, errSetup)) {
				break
			}
		}
		rec.CountKeyed(f, true, "replayed")
		rec.Sample(map[string]string{"file": filepath.Base(f), "test": doc.Test})
		if runErr != nil {
			if h.IsInconclusive(runErr) || errors.Is(runErr, errSetup) {
				rec.Inconclusive()
				continue
			}
			rec.FailKeep(doc.Test, doc.Case, runErr.Error(), sigFor(runErr))
			t.Errorf("%s: %v", filepath.Base(f), runErr)
		}
	}
}

func has(list []string, s string) bool {
	for _, x := range list {
		if x == s {
			return true
		}
	}
	return false
}

var _ = fmt.Sprintf
var _ = strings.Join
