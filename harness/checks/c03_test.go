package checks

import (
	"encoding/json"
	"fmt"
	"sort"
	"strings"
	"testing"
	"time"

	"verifharness/h"

	"pgregory.net/rapid"
)

// Schedule says how a point sequence is spread over memory and disk.
type Schedule struct {
	FlushAt   []int `json:"flush_at,omitempty"`   // force-flush before inserting point i
	RestartAt []int `json:"restart_at,omitempty"` // clean close/reopen before inserting point i
	SleepAt   []int `json:"sleep_at,omitempty"`   // sleep a few ms before inserting point i (lets timer flushes fire)
	TimerMS   int   `json:"timer_ms,omitempty"`   // MaxFlushLatency of every table
	MinMS     int   `json:"min_ms,omitempty"`
	Sorted    bool  `json:"sorted,omitempty"` // memory cap configured: forced flushes may sort
	// OneTable[i] names the only table that the i-th entry of FlushAt flushes
	// ("" or missing: all tables). Tables of one stream then sit at different
	// positions, as they do in production where each table has its own timer.
	OneTable []string `json:"one_table,omitempty"`
	// PinTimer sets MinFlushLatency to 1h (when no timer schedule is drawn) so
	// that zenodb's adaptive re-arming (10x the last flush duration) does not
	// flush the other tables a few ms after a forced flush
	PinTimer bool `json:"pin_timer,omitempty"`
}

// C03Case compares two schedules over the same points.
type C03Case struct {
	Schema  h.Schema   `json:"schema"`
	Points  []h.Point  `json:"points"`
	A       Schedule   `json:"a"`
	B       Schedule   `json:"b"`
	Queries []*h.Query `json:"queries"`
}

func genSchedule(t *rapid.T, n int, label string) Schedule {
	var s Schedule
	pos := func(l string) int { return rapid.IntRange(0, n).Draw(t, l) }
	switch rapid.IntRange(0, 6).Draw(t, label+".kind") {
	case 0: // nothing
	case 1: // every k-th
		k := rapid.IntRange(1, 5).Draw(t, label+".k")
		for i := k; i <= n; i += k {
			s.FlushAt = append(s.FlushAt, i)
		}
	case 2: // timer
		s.TimerMS = rapid.IntRange(1, 4).Draw(t, label+".timer")
		if rapid.Bool().Draw(t, label+".min") {
			s.MinMS = 1
		}
		m := rapid.IntRange(1, 4).Draw(t, label+".nsleep")
		for i := 0; i < m; i++ {
			s.SleepAt = append(s.SleepAt, pos(fmt.Sprintf("%s.sleep%d", label, i)))
		}
	case 3: // many flushes: reaches the every-10th truncating flush
		m := rapid.IntRange(10, 14).Draw(t, label+".many")
		for i := 0; i < m; i++ {
			s.FlushAt = append(s.FlushAt, pos(fmt.Sprintf("%s.f%d", label, i)))
		}
	default:
		m := rapid.IntRange(1, 3).Draw(t, label+".nf")
		for i := 0; i < m; i++ {
			s.FlushAt = append(s.FlushAt, pos(fmt.Sprintf("%s.f%d", label, i)))
		}
	}
	if rapid.IntRange(0, 3).Draw(t, label+".restart") == 0 {
		m := rapid.IntRange(1, 2).Draw(t, label+".nr")
		for i := 0; i < m; i++ {
			s.RestartAt = append(s.RestartAt, pos(fmt.Sprintf("%s.r%d", label, i)))
		}
	}
	s.Sorted = rapid.IntRange(0, 3).Draw(t, label+".sorted") == 0
	sort.Ints(s.FlushAt)
	sort.Ints(s.RestartAt)
	if s.TimerMS == 0 && rapid.Bool().Draw(t, label+".pin") {
		s.PinTimer = true
	}
	if len(s.FlushAt) > 0 && len(s.FlushAt) < 10 && rapid.IntRange(0, 2).Draw(t, label+".onetable") == 0 {
		for i := range s.FlushAt {
			s.OneTable = append(s.OneTable, rapid.SampledFrom([]string{"", "ta", "tb"}).Draw(t, fmt.Sprintf("%s.ot%d", label, i)))
		}
	}
	return s
}

func c03Cfg() *h.GenCfg {
	maxPts := 30
	if h.Thorough() {
		maxPts = 80
	}
	return &h.GenCfg{MaxPoints: maxPts, MaxPeriods: 6, MaxTables: 2, MaxFields: 4, AllowView: false, AllowWhere: true, AllowPct: true, AllowIf: true}
}

func genC03(t *rapid.T) C03Case {
	cfg := c03Cfg()
	c := C03Case{Schema: h.GenSchema(t, cfg)}
	n := rapid.IntRange(1, cfg.MaxPoints).Draw(t, "npoints")
	for i := 0; i < n; i++ {
		c.Points = append(c.Points, h.GenPoint(t, cfg, &c.Schema, cfg.MaxPeriods, fmt.Sprintf("p%d", i)))
	}
	c.A = genSchedule(t, n, "a")
	c.B = genSchedule(t, n, "b")
	nq := rapid.IntRange(1, 4).Draw(t, "nq")
	for i := 0; i < nq; i++ {
		tbl := c.Schema.Tables[rapid.IntRange(0, len(c.Schema.Tables)-1).Draw(t, fmt.Sprintf("qt%d", i))].Name
		c.Queries = append(c.Queries, h.GenQuery(t, h.FullQ(cfg.MaxPeriods), &c.Schema, tbl, fmt.Sprintf("q%d", i)))
	}
	return c
}

func maxTS(pts []h.Point) int64 {
	m := h.BaseTS
	for _, p := range pts {
		if p.TS > m {
			m = p.TS
		}
	}
	return m
}

func contains(xs []int, x int) bool {
	for _, y := range xs {
		if x == y {
			return true
		}
	}
	return false
}

// qOutcome is the comparable outcome of one query.
type qOutcome struct {
	res *h.Result
	err error
}

// runSchedule loads the points under a schedule and runs fn on the quiescent
// database with the clock set to now.
func runSchedule(schema *h.Schema, pts []h.Point, s *Schedule, now int64, prefix string, fn func(db *h.DB) error) error {
	sc := *schema
	sc.Tables = append([]h.TableDef(nil), schema.Tables...)
	for i := range sc.Tables {
		sc.Tables[i].MaxFlushNS = int64(s.TimerMS) * 1e6
		sc.Tables[i].MinFlushNS = int64(s.MinMS) * 1e6
		if s.PinTimer && s.TimerMS == 0 {
			sc.Tables[i].MinFlushNS = int64(3600e9)
		}
	}
	conf := h.DBConf{}
	if s.Sorted {
		conf.MaxMemoryRatio = 0.9
	}
	dir := h.ScratchDir(prefix)
	defer removeAll(dir)
	marker := new(int64)
	db, err := h.OpenDB(dir, &sc, conf, marker)
	if err != nil {
		return fmt.Errorf("%w: open: %v", errSetup, err)
	}
	defer func() { db.Close() }()
	var hi int64
	for i := 0; i <= len(pts); i++ {
		if contains(s.RestartAt, i) {
			if err := db.Quiesce(); err != nil {
				return err
			}
			db.Close()
			db, err = h.OpenDB(dir, &sc, conf, marker)
			if err != nil {
				return fmt.Errorf("reopen failed: %v", err)
			}
			if hi > 0 {
				db.Z.VerifAdvanceClock(time.Unix(0, hi))
			}
		}
		if contains(s.FlushAt, i) {
			if err := db.Quiesce(); err != nil {
				return err
			}
			for k, at := range s.FlushAt {
				if at != i {
					continue
				}
				if k < len(s.OneTable) && s.OneTable[k] != "" && sc.Table(s.OneTable[k]) != nil {
					db.Z.VerifFlushTable(s.OneTable[k])
				} else {
					db.Flush()
				}
			}
		}
		if contains(s.SleepAt, i) {
			time.Sleep(time.Duration(s.TimerMS+2) * time.Millisecond)
		}
		if i < len(pts) {
			if err := db.Insert("inbound", pts[i]); err != nil {
				return fmt.Errorf("insert: %v", err)
			}
			if pts[i].TS > hi {
				hi = pts[i].TS
			}
		}
	}
	if err := db.Quiesce(); err != nil {
		return err
	}
	db.Z.VerifAdvanceClock(time.Unix(0, now))
	return fn(db)
}

func count(xs []int, x int) int {
	n := 0
	for _, y := range xs {
		if y == x {
			n++
		}
	}
	return n
}

func runQueries(db *h.DB, qs []*h.Query, mem bool) ([]qOutcome, error) {
	out := make([]qOutcome, len(qs))
	for i, q := range qs {
		res, err := db.Query(q.SQL(), h.QueryOpts{Mem: mem})
		if err != nil && h.IsInconclusive(err) {
			return nil, err
		}
		out[i] = qOutcome{res, err}
	}
	return out, nil
}

// sameOutcome compares two outcomes of the same query; "" when equivalent.
func sameOutcome(q *h.Query, a, b qOutcome) string {
	if (a.err != nil) != (b.err != nil) {
		return fmt.Sprintf("one side failed: %v vs %v", a.err, b.err)
	}
	if a.err != nil {
		return ""
	}
	if strings.Join(a.res.Fields, ",") != strings.Join(b.res.Fields, ",") {
		return fmt.Sprintf("field lists differ: %v vs %v", a.res.Fields, b.res.Fields)
	}
	if q.HasLimit() {
		if len(a.res.Rows) != len(b.res.Rows) {
			return fmt.Sprintf("row counts differ under LIMIT: %d vs %d", len(a.res.Rows), len(b.res.Rows))
		}
		if len(q.OrderBy) == 0 {
			return ""
		}
		if orderKeyNaN(q, a.res) || orderKeyNaN(q, b.res) {
			// NaN in an ORDER BY key (LN/LOG of a non-positive value): the comparator
			// is not an order, so which rows end up in the slice depends on arrival order
			return ""
		}
		// ordered + limit: compare the values of the ORDER BY keys position-wise
		for i := range a.res.Rows {
			for _, k := range q.OrderBy {
				if k.Field == "_time" {
					if a.res.Rows[i].TS != b.res.Rows[i].TS {
						return fmt.Sprintf("row %d differs in _time: %d vs %d", i, a.res.Rows[i].TS, b.res.Rows[i].TS)
					}
					continue
				}
				av, aok := a.res.Rows[i].Vals[k.Field]
				bv, bok := b.res.Rows[i].Vals[k.Field]
				if aok && bok && !h.FloatEq(av, bv) {
					return fmt.Sprintf("row %d differs in %s: %v vs %v", i, k.Field, av, bv)
				}
			}
		}
		return ""
	}
	if d := h.DiffRows(a.res.Rows, b.res.Rows, a.res.Fields); d != "" {
		return d
	}
	// same rows: where ORDER BY decides the order, the sequences of ORDER BY key
	// values must agree position by position (ties may differ in other columns)
	if d := orderKeysEqual(q, a.res, b.res); d != "" {
		return "same rows, different order: " + d
	}
	return ""
}

func runC03(c *C03Case) error {
	now := maxTS(c.Points)
	var outA, outB, diskB, memB []qOutcome
	err := runSchedule(&c.Schema, c.Points, &c.A, now, "c03a", func(db *h.DB) error {
		var err error
		outA, err = runQueries(db, c.Queries, true)
		return err
	})
	if err != nil {
		return err
	}
	err = runSchedule(&c.Schema, c.Points, &c.B, now, "c03b", func(db *h.DB) error {
		var err error
		if outB, err = runQueries(db, c.Queries, true); err != nil {
			return err
		}
		db.Flush()
		if diskB, err = runQueries(db, c.Queries, false); err != nil {
			return err
		}
		memB, err = runQueries(db, c.Queries, true)
		return err
	})
	if err != nil {
		return err
	}
	for i, q := range c.Queries {
		if d := sameOutcome(q, outA[i], outB[i]); d != "" {
			return fmt.Errorf("schedules disagree on %s\nA=%+v\nB=%+v\n%s", q.SQL(), c.A, c.B, d)
		}
		if d := sameOutcome(q, outB[i], memB[i]); d != "" {
			return fmt.Errorf("result changed by a flush: %s\nbefore vs after FlushAll (memstore-inclusive)\n%s", q.SQL(), d)
		}
		if d := sameOutcome(q, memB[i], diskB[i]); d != "" {
			return fmt.Errorf("disk-only differs from memstore-inclusive right after a flush: %s\n%s", q.SQL(), d)
		}
	}
	return nil
}

func classifyC03(c *C03Case) (bool, []string) {
	var labels []string
	for _, s := range []*Schedule{&c.A, &c.B} {
		if len(s.RestartAt) > 0 {
			labels = append(labels, "restart")
		}
		if s.TimerMS > 0 {
			labels = append(labels, "timer")
		}
		if s.Sorted {
			labels = append(labels, "sorted")
		}
		if len(s.FlushAt) >= 10 {
			labels = append(labels, "tenth-flush")
		}
	}
	differ := fmt.Sprintf("%+v", c.A) != fmt.Sprintf("%+v", c.B)
	split := false
	n := len(c.Points)
	for _, s := range []*Schedule{&c.A, &c.B} {
		for _, f := range s.FlushAt {
			if f > 0 && f < n {
				split = true
			}
		}
	}
	if split {
		labels = append(labels, "disk+mem-split")
	}
	for _, q := range c.Queries {
		if q.Regroups() {
			labels = append(labels, "regrouping-query")
			break
		}
	}
	return differ && split && n >= 2, labels
}

func TestC03(t *testing.T) {
	rec := h.NewRec(t, "TestC03")
	probesC03(rec)
	rapid.Check(t, func(rt *rapid.T) {
		c := genC03(rt)
		nt, labels := classifyC03(&c)
		err := runC03(&c)
		if outcome(rec, rt, &c, nt, labels, err) {
			rt.Fatalf("%v", err)
		}
	})
}

func probesC03(rec *h.Rec) {}

func init() {
	register("TestC03", func(raw json.RawMessage) error {
		var c C03Case
		if err := json.Unmarshal(raw, &c); err != nil {
			return err
		}
		return runC03(&c)
	})
}
