package checks

import (
	"encoding/json"
	"fmt"
	"strings"
	"testing"
	"time"

	"verifharness/h"

	"pgregory.net/rapid"
)

// GQCase is a dataset and one grouped (and optionally time-ranged) query whose
// expected result is computed from the raw points.
type GQCase struct {
	Data    DataCase    `json:"data"`
	Sel     []h.QField  `json:"sel"`
	Group   string      `json:"group"` // keep | dims | none
	GroupBy []string    `json:"group_by,omitempty"`
	PMult   int         `json:"pmult"` // period = PMult * resolution (0: no period clause)
	AsOf    *h.TimeSpec `json:"asof,omitempty"`
	Until   *h.TimeSpec `json:"until,omitempty"`
	NowOff  int64       `json:"now_off"` // clock = newest point + NowOff
}

func gqCfg() *h.GenCfg {
	maxPts := 30
	if h.Thorough() {
		maxPts = 90
	}
	return &h.GenCfg{MaxPoints: maxPts, MaxPeriods: 8, MaxTables: 1, MaxFields: 4, AllowWhere: true, AllowPct: true, AllowIf: true, AllowMixed: true}
}

func genGQ(t *rapid.T, window bool) GQCase {
	cfg := gqCfg()
	c := GQCase{Data: genData(t, cfg)}
	s := &c.Data.Schema
	sem := h.SemFor(s, "ta")
	res := sem.Def.ResNS
	names := tableFieldNames(s, "ta")
	c.Sel = []h.QField{{Name: "_points"}}
	if rapid.IntRange(0, 4).Draw(t, "selstar") == 0 {
		c.Sel = []h.QField{{Star: true}}
	}
	seen := map[string]bool{}
	n := rapid.IntRange(0, len(names)).Draw(t, "nsel")
	for i := 0; i < n; i++ {
		nm := rapid.SampledFrom(names).Draw(t, fmt.Sprintf("sel%d", i))
		if !seen[nm] {
			seen[nm] = true
			c.Sel = append(c.Sel, h.QField{Name: nm})
		}
	}
	opNames := []string{"_points"}
	for _, f := range sem.Fields {
		if f.Ex.Op != "BOUNDEDTOP" && f.Ex.Op != "PCT" {
			opNames = append(opNames, f.Name)
		}
	}
	if rapid.IntRange(0, 2).Draw(t, "derived") == 0 {
		a := rapid.SampledFrom(opNames).Draw(t, "dera")
		b := rapid.SampledFrom(opNames).Draw(t, "derb")
		op := rapid.SampledFrom([]string{"/", "+", "-", "*"}).Draw(t, "derop")
		c.Sel = append(c.Sel, h.QField{Name: "q0", Ex: &h.Ex{Op: op, Args: []*h.Ex{{Op: "REF", F: a}, {Op: "REF", F: b}}}})
	}
	var dims []string
	if sem.Def.GroupAll {
		dims = append([]string(nil), h.DimNames...)
	} else {
		dims = append([]string(nil), sem.Def.GroupBy...)
	}
	switch rapid.IntRange(0, 3).Draw(t, "group") {
	case 0:
		c.Group = "keep"
	case 1:
		c.Group = "none"
	default:
		c.Group = "dims"
		k := rapid.IntRange(1, len(dims)).Draw(t, "ngb")
		perm := rapid.Permutation(dims).Draw(t, "gbp")
		c.GroupBy = append([]string(nil), perm[:k]...)
	}
	c.PMult = rapid.SampledFrom([]int{0, 1, 2, 3, 4, 5, 7, 10, 1000000}).Draw(t, "pmult")
	c.NowOff = rapid.SampledFrom([]int64{0, 1, res / 2, res, 3 * res}).Draw(t, "nowoff")
	if window {
		span := int64(cfg.MaxPeriods+1) * res
		bound := func(l string) *h.TimeSpec {
			off := rapid.Int64Range(-2*res, span).Draw(t, l+".off")
			switch rapid.IntRange(0, 3).Draw(t, l+".kind") {
			case 0:
				return &h.TimeSpec{Abs: h.PeriodEnd(h.BaseTS+off, res)}
			case 1:
				return &h.TimeSpec{Abs: (h.BaseTS + off) / 1e6 * 1e6}
			case 2:
				// relative to now, whole multiples of the resolution
				return &h.TimeSpec{IsRel: true, Rel: -res * rapid.Int64Range(1, int64(cfg.MaxPeriods)).Draw(t, l+".relp")}
			}
			return &h.TimeSpec{IsRel: true, Rel: -(rapid.Int64Range(1, span/1e6).Draw(t, l+".relms") * 1e6)}
		}
		// the grammar has ASOF x [UNTIL y]; UNTIL alone does not parse
		switch rapid.IntRange(0, 2).Draw(t, "wk") {
		case 0:
			c.AsOf = bound("asof")
		default:
			c.AsOf = bound("asof")
			c.Until = bound("until")
		}
	}
	return c
}

func (c *GQCase) query() *h.Query {
	q := &h.Query{Fields: c.Sel, From: "ta", AsOf: c.AsOf, Until: c.Until}
	switch c.Group {
	case "keep":
		q.GroupStar = true
	case "none":
		q.GroupNone = true
	default:
		q.GroupBy = c.GroupBy
	}
	if c.PMult > 0 {
		q.PeriodNS = int64(c.PMult) * h.SemFor(&c.Data.Schema, "ta").Def.ResNS
	}
	return q
}

func abs(ts *h.TimeSpec, now int64) int64 {
	if ts.IsRel {
		return now + ts.Rel
	}
	return ts.Abs
}

// acceptedSubPoints returns the sub-points the table accepts.
func acceptedSubPoints(s *h.Schema, table string, pts []h.Point) []h.SubPoint {
	sem := h.SemFor(s, table)
	var out []h.SubPoint
	for _, p := range pts {
		for _, sp := range h.SubPointsOf(p, false) {
			if sem.Accepts(sp.Dims) {
				out = append(out, sp)
			}
		}
	}
	return out
}

// refSel expands * into _points plus all table fields for the reference.
func (c *GQCase) refSel() []h.QField {
	var out []h.QField
	seen := map[string]bool{}
	for _, f := range c.Sel {
		if f.Star {
			for _, n := range append([]string{"_points"}, tableFieldNames(&c.Data.Schema, "ta")...) {
				if !seen[n] {
					seen[n] = true
					out = append(out, h.QField{Name: n})
				}
			}
			continue
		}
		if !seen[f.Name] {
			seen[f.Name] = true
			out = append(out, f)
		}
	}
	return out
}

func runGQ(c *GQCase) error {
	s := &c.Data.Schema
	sem := h.SemFor(s, "ta")
	res := sem.Def.ResNS
	now := maxTS(c.Data.Points) + c.NowOff
	q := c.query()
	return c.Data.withDB("gq", h.DBConf{}, func(db *h.DB) error {
		db.Z.VerifAdvanceClock(time.Unix(0, now))
		got, err := db.Query(q.SQL(), h.QueryOpts{Mem: true})
		defA, defU := h.DefaultWindow(now, res, sem.Def.RetNS)
		// candidate windows: a bound that is not aligned may be applied rounded
		// down or up (periods straddling a bound may or may not be included)
		asOfC := []int64{defA}
		untilC := []int64{defU}
		if c.AsOf != nil {
			a := abs(c.AsOf, now)
			asOfC = []int64{h.RoundUp(a, res)}
			if h.RoundDown(a, res) != asOfC[0] {
				asOfC = append(asOfC, h.RoundDown(a, res))
			}
		}
		if c.Until != nil {
			u := abs(c.Until, now)
			untilC = []int64{h.RoundUp(u, res)}
			if h.RoundDown(u, res) != untilC[0] {
				untilC = append(untilC, h.RoundDown(u, res))
			}
		}
		if err != nil {
			if h.IsInconclusive(err) {
				return err
			}
			// a window that starts before the table's retention window, an empty or
			// inverted window, or a period that does not fit are documented errors
			for _, a := range asOfC {
				for _, u := range untilC {
					if a < defA || u <= a || u > defU+res {
						return nil
					}
				}
			}
			if strings.Contains(err.Error(), "is before table asOf") {
				return nil
			}
			return fmt.Errorf("%s: unexpected error: %v", q.SQL(), err)
		}
		pts := acceptedSubPoints(s, "ta", c.Data.Points)
		var firstDiff string
		for _, a := range asOfC {
			for _, u := range untilC {
				rq := &h.RefQ{Fields: c.refSel(), GroupBy: c.GroupBy, KeepKey: c.Group == "keep", AsOf: a, Until: u}
				if c.PMult > 0 {
					rq.Period = int64(c.PMult) * res
				}
				want := sem.Query(pts, rq)
				d := h.DiffRows(want, got.Rows, nil)
				if d == "" {
					if err := validateBuckets(got, q.SQL()); err != nil {
						return err
					}
					if c.AsOf == nil && c.Until == nil {
						return nil
					}
					// metamorphic part of C07: the unbounded query, run AFTER the
					// time-ranged one on the same database, still reports the
					// reference values (a ranged query must not disturb what later
					// queries see for the same periods)
					uq := *q
					uq.AsOf, uq.Until = nil, nil
					ug, uerr := db.Query(uq.SQL(), h.QueryOpts{Mem: true})
					if uerr != nil {
						if h.IsInconclusive(uerr) {
							return uerr
						}
						return fmt.Errorf("%s: unexpected error: %v", uq.SQL(), uerr)
					}
					urq := *rq
					urq.AsOf, urq.Until = defA, defU
					if d := h.DiffRows(sem.Query(pts, &urq), ug.Rows, nil); d != "" {
						return fmt.Errorf("unbounded query %s run after %s differs from the reference:\n%s", uq.SQL(), q.SQL(), d)
					}
					return nil
				}
				if firstDiff == "" {
					firstDiff = fmt.Sprintf("window (%d, %d]: %s", a, u, d)
				}
			}
		}
		return fmt.Errorf("%s (now=%d): result matches no admissible window\n%s", q.SQL(), now, firstDiff)
	})
}

// validateBuckets checks the validity predicates of C06 on the result itself:
// per key, row timestamps are distinct (periods disjoint).
func validateBuckets(res *h.Result, sql string) error {
	seen := map[string]bool{}
	for _, r := range res.Rows {
		k := fmt.Sprintf("%s@%d", r.Key, r.TS)
		if seen[k] {
			return fmt.Errorf("%s: two rows for key [%s] and period %d", sql, r.Key, r.TS)
		}
		seen[k] = true
	}
	return nil
}

func classifyGQ(c *GQCase) (bool, []string) {
	labels := c.Data.splitLabels()
	labels = append(labels, "group-"+c.Group)
	if c.PMult > 1 {
		labels = append(labels, "coarse-period")
	}
	if c.PMult >= 1000 {
		labels = append(labels, "period-larger-than-window")
	}
	sem := h.SemFor(&c.Data.Schema, "ta")
	res := sem.Def.ResNS
	pts := acceptedSubPoints(&c.Data.Schema, "ta", c.Data.Points)
	// folding: >= 2 fine periods and >= 2 source keys in one output row
	now := maxTS(c.Data.Points) + c.NowOff
	a, u := h.DefaultWindow(now, res, sem.Def.RetNS)
	P := res
	if c.PMult > 0 {
		P = int64(c.PMult) * res
	}
	type gk struct {
		key string
		ts  int64
	}
	fine := map[gk]map[int64]bool{}
	keys := map[gk]map[string]bool{}
	inside := false
	for _, sp := range pts {
		e := h.PeriodEnd(sp.TS, res)
		if e <= a || e > u {
			continue
		}
		if P > u-a {
			P = u - a
		}
		T := u - ((u-e)/P)*P
		var k gk
		switch c.Group {
		case "keep":
			k = gk{h.KeyOf(sem.Def, sp.Dims), T}
		case "none":
			k = gk{"", T}
		default:
			parts := []string{}
			for _, d := range c.GroupBy {
				if v, ok := sp.Dims[d]; ok {
					parts = append(parts, d+"="+v.Canon())
				}
			}
			k = gk{strings.Join(parts, ";"), T}
		}
		if fine[k] == nil {
			fine[k] = map[int64]bool{}
			keys[k] = map[string]bool{}
		}
		fine[k][e] = true
		keys[k][h.KeyOf(sem.Def, sp.Dims)] = true
		for _, b := range []*h.TimeSpec{c.AsOf, c.Until} {
			if b != nil {
				x := abs(b, now)
				if x > e-res && x < e {
					inside = true
				}
			}
		}
	}
	fold := false
	for k := range fine {
		if len(fine[k]) >= 2 && len(keys[k]) >= 2 {
			fold = true
		}
	}
	if fold {
		labels = append(labels, "folds-periods-and-keys")
	}
	if inside {
		labels = append(labels, "bound-inside-a-period")
	}
	if c.AsOf != nil || c.Until != nil {
		first, last := int64(0), int64(0)
		for _, sp := range pts {
			e := h.PeriodEnd(sp.TS, res)
			if first == 0 || e < first {
				first = e
			}
			if e > last {
				last = e
			}
		}
		cut := false
		for _, b := range []*h.TimeSpec{c.AsOf, c.Until} {
			if b != nil {
				x := abs(b, now)
				if x > first-res && x < last {
					cut = true
				}
			}
		}
		if cut {
			labels = append(labels, "bound-inside-stored-series")
		}
		return cut && len(pts) >= 2, labels
	}
	return fold, labels
}

func TestC06(t *testing.T) {
	rec := h.NewRec(t, "TestC06")
	rapid.Check(t, func(rt *rapid.T) {
		c := genGQ(rt, false)
		nt, labels := classifyGQ(&c)
		err := runGQ(&c)
		if outcome(rec, rt, &c, nt, labels, err) {
			rt.Fatalf("%v", err)
		}
	})
}

func TestC07(t *testing.T) {
	rec := h.NewRec(t, "TestC07")
	rapid.Check(t, func(rt *rapid.T) {
		c := genGQ(rt, true)
		nt, labels := classifyGQ(&c)
		err := runGQ(&c)
		if outcome(rec, rt, &c, nt, labels, err) {
			rt.Fatalf("%v", err)
		}
	})
}

func init() {
	fn := func(raw json.RawMessage) error {
		var c GQCase
		if err := json.Unmarshal(raw, &c); err != nil {
			return err
		}
		return runGQ(&c)
	}
	register("TestC06", fn)
	register("TestC07", fn)
}
