package checks

import (
	"encoding/json"
	"fmt"
	"sort"
	"testing"
	"time"

	"verifharness/h"

	"pgregory.net/rapid"
)

// C14: retention drops only expired data, and expired data stays gone.
//
// Stateful model. One table, one process lifetime per case; the virtual clock
// follows the timestamps of the processed points, which one table processes in
// insertion order, so the model knows the clock at the moment each point is
// processed without having to wait. Flushes and checks happen at quiescent
// points (exact ingestion barrier).

type C14Op struct {
	K   string   `json:"k"` // ins | flush | check
	P   *h.Point `json:"p,omitempty"`
	Q   *h.Query `json:"q,omitempty"`   // check: an additional grouped / time-ranged query
	Rel int64    `json:"rel,omitempty"` // documentation only: ts - model clock at generation time
}

type C14Case struct {
	ResNS   int64   `json:"res"`
	RetNS   int64   `json:"ret"`
	NoTimer bool    `json:"no_timer"` // MinFlushLatency = 1h: only the harness flushes
	Ops     []C14Op `json:"ops"`
}

func (c *C14Case) schema() *h.Schema {
	t := h.TableDef{
		Name: "ta", Stream: "inbound", GroupBy: []string{"da", "db"}, ResNS: c.ResNS, RetNS: c.RetNS,
		Fields: []h.FieldDef{
			{Name: "fa", Ex: &h.Ex{Op: "SUM", F: "va"}},
			{Name: "fb", Ex: &h.Ex{Op: "MAX", F: "va"}},
			{Name: "fc", Ex: &h.Ex{Op: "AVG", F: "va"}},
		}}
	if c.NoTimer {
		t.MinFlushNS = int64(time.Hour)
	}
	return &h.Schema{Tables: []h.TableDef{t}}
}

func genC14(t *rapid.T) C14Case {
	c := C14Case{
		ResNS:   rapid.SampledFrom([]int64{250e6, 1e9, 2e9, 7e9}).Draw(t, "res"),
		NoTimer: rapid.IntRange(0, 3).Draw(t, "timer") > 0,
	}
	ratio := rapid.SampledFrom([]int64{3, 4, 5, 8, 13, 50}).Draw(t, "ratio")
	c.RetNS = ratio * c.ResNS
	res, ret := c.ResNS, c.RetNS
	maxOps := 40
	if h.Thorough() {
		maxOps = 110
	}
	clock := h.PeriodEnd(h.BaseTS, res) // model clock while generating
	point := func(label string, ts int64) *h.Point {
		p := &h.Point{TS: ts,
			Dims: []h.KV{{N: "da", V: h.DimVal(t, "da", label+".da")}, {N: "db", V: h.DimVal(t, "db", label+".db")}},
			Vals: []h.KV{{N: "va", V: h.IntV(int64(rapid.IntRange(1, 9).Draw(t, label+".va")))}}}
		return p
	}
	ins := func(label string, ts int64) {
		c.Ops = append(c.Ops, C14Op{K: "ins", P: point(label, ts), Rel: ts - clock})
		if ts >= clock-ret && ts > clock {
			clock = ts
		}
	}
	// a first point so that the clock is defined
	ins("first", clock)
	n := rapid.IntRange(3, maxOps).Draw(t, "nops")
	for i := 0; i < n; i++ {
		label := fmt.Sprintf("op%d", i)
		switch rapid.IntRange(0, 13).Draw(t, label) {
		case 0, 1, 2:
			// around the retention boundary: exactly on it, one nanosecond or one period either side
			off := rapid.SampledFrom([]int64{0, 1, -1, res, -res, res / 2, -res / 2, res + 1, -res - 1, 2 * res, -2 * res}).Draw(t, label+".boff")
			ins(label, clock-ret+off)
		case 3, 4:
			// inside the window, possibly late / out of order
			ins(label, clock-rapid.Int64Range(0, ret-1).Draw(t, label+".in"))
		case 5:
			// clearly expired
			ins(label, clock-ret-rapid.Int64Range(1, ret).Draw(t, label+".old"))
		case 6, 7:
			// advance the clock: a new point in the future
			step := rapid.SampledFrom([]int64{1, res / 2, res, 2 * res, ret / 2, ret - res, ret, ret + res, 2 * ret}).Draw(t, label+".step")
			ins(label, clock+step)
		case 8, 9:
			c.Ops = append(c.Ops, C14Op{K: "flush"})
		case 10:
			// a burst of flushes, most of them data-carrying: reaches the truncating (10th) flush
			m := rapid.IntRange(10, 13).Draw(t, label+".burst")
			for j := 0; j < m; j++ {
				if rapid.IntRange(0, 5).Draw(t, fmt.Sprintf("%s.e%d", label, j)) > 0 {
					ins(fmt.Sprintf("%s.b%d", label, j), clock-rapid.Int64Range(0, res).Draw(t, fmt.Sprintf("%s.bo%d", label, j)))
				}
				c.Ops = append(c.Ops, C14Op{K: "flush"})
			}
		default:
			op := C14Op{K: "check"}
			switch rapid.IntRange(0, 3).Draw(t, label+".q") {
			case 0:
				// grouped, coarser period
				q := &h.Query{Fields: []h.QField{{Name: "_points"}, {Name: "fa"}}, From: "ta"}
				switch rapid.IntRange(0, 2).Draw(t, label+".g") {
				case 0:
					q.GroupNone = true
				case 1:
					q.GroupBy = []string{"da"}
				default:
					q.GroupStar = true
				}
				q.PeriodNS = res * int64(rapid.SampledFrom([]int{1, 2, 3, 5}).Draw(t, label+".pm"))
				op.Q = q
			case 1:
				// time-ranged, aligned bounds inside the retention window
				k := rapid.Int64Range(1, ratio).Draw(t, label+".ak")
				q := &h.Query{Fields: []h.QField{{Name: "_points"}, {Name: "fa"}}, From: "ta", GroupStar: true}
				q.AsOf = &h.TimeSpec{Abs: h.PeriodEnd(clock, res) - k*res}
				if rapid.Bool().Draw(t, label+".hasu") {
					u := rapid.Int64Range(0, k-1).Draw(t, label+".uk")
					q.Until = &h.TimeSpec{Abs: h.PeriodEnd(clock, res) - u*res}
				}
				op.Q = q
			}
			c.Ops = append(c.Ops, op)
		}
	}
	c.Ops = append(c.Ops, C14Op{K: "check"})
	return c
}

// c14Model is the reference state.
type c14Model struct {
	res, ret int64
	clock    int64
	started  bool
	accepted []h.Point      // stored points, in processing order
	rejected []h.Point      // points that were too old when processed
	periods  map[int64]bool // period ends that have stored data
	expFlush map[int64]int  // period end -> data-carrying flushes seen since it expired
	absent   map[int64]bool // period ends that must be absent from disk and memory from now on
	dirty    bool           // a point was stored since the last flush
	flushes  int            // data-carrying flushes
	labels   map[string]bool
}

func (m *c14Model) insert(p h.Point) {
	if m.started && p.TS < m.clock-m.ret {
		m.rejected = append(m.rejected, p)
		m.labels["rejected-expired-point"] = true
		if p.TS >= m.clock-m.ret-m.res {
			m.labels["rejected-within-one-period-of-boundary"] = true
		}
		return
	}
	if m.started && p.TS < m.clock-m.ret+m.res {
		m.labels["accepted-within-one-period-of-boundary"] = true
	}
	if m.started && p.TS < m.clock {
		m.labels["late-point"] = true
	}
	if !m.started || p.TS > m.clock {
		m.clock = p.TS
	}
	m.started = true
	m.accepted = append(m.accepted, p)
	m.periods[h.PeriodEnd(p.TS, m.res)] = true
	m.dirty = true
}

func (m *c14Model) flush() {
	if !m.dirty {
		m.labels["empty-flush"] = true
		return
	}
	m.dirty = false
	m.flushes++
	tb := m.clock - m.ret
	for e := range m.periods {
		if e < tb {
			m.expFlush[e]++
			// any ten consecutive data-carrying flushes contain a truncating one
			if m.expFlush[e] >= 10 && !m.absent[e] {
				m.absent[e] = true
				m.labels["period-must-be-truncated"] = true
			}
		}
	}
}

// window is the default query window (asOf exclusive, until inclusive).
func (m *c14Model) window() (int64, int64) {
	until := h.PeriodEnd(m.clock, m.res)
	return until - m.ret, until
}

func runC14(c *C14Case) ([]string, error) {
	sc := c.schema()
	sem := h.SemFor(sc, "ta")
	dir := h.ScratchDir("c14")
	defer removeAll(dir)
	db, err := h.OpenDB(dir, sc, h.DBConf{}, nil)
	if err != nil {
		return nil, fmt.Errorf("%w: open: %v", errSetup, err)
	}
	defer db.Close()
	m := &c14Model{res: c.ResNS, ret: c.RetNS, periods: map[int64]bool{}, expFlush: map[int64]int{}, absent: map[int64]bool{}, labels: map[string]bool{}}
	justFlushed := false
	history := func(i int) string {
		return fmt.Sprintf("(op %d of %d; clock %s; resolution %v retention %v; %d stored, %d rejected points; %d data-carrying flushes)", i, len(c.Ops), time.Unix(0, m.clock).UTC().Format(time.RFC3339Nano), time.Duration(c.ResNS), time.Duration(c.RetNS), len(m.accepted), len(m.rejected), m.flushes)
	}
	// native rows the model allows, keyed by key|ts
	check := func(i int, mem bool) error {
		if err := db.Quiesce(); err != nil {
			return err
		}
		got, err := db.Query("SELECT * FROM ta", h.QueryOpts{Mem: mem})
		if err != nil {
			if h.IsInconclusive(err) {
				return err
			}
			return fmt.Errorf("SELECT * FROM ta failed: %v %s", err, history(i))
		}
		var sps []h.SubPoint
		for _, p := range m.accepted {
			sps = append(sps, h.SubPointsOf(p, false)...)
		}
		want := sem.Aggregate(sps)
		asOf, until := m.window()
		wantBy := map[string]h.RefRow{}
		for _, r := range want {
			wantBy[fmt.Sprintf("%s|%d", r.Key, r.TS)] = r
		}
		seen := map[string]bool{}
		for _, r := range got.Rows {
			id := fmt.Sprintf("%s|%d", r.Key, r.TS)
			if seen[id] {
				return fmt.Errorf("SELECT * (memstore=%v) returned key %s period %s twice %s", mem, r.Key, fmtTS(r.TS), history(i))
			}
			seen[id] = true
			w, ok := wantBy[id]
			if !ok {
				return fmt.Errorf("SELECT * (memstore=%v) returned a row that no stored point explains (a point that was older than the retention period when it was processed, or nothing at all): %s, period end %s %s", mem, r, fmtTS(r.TS), history(i))
			}
			if m.absent[r.TS] {
				return fmt.Errorf("SELECT * (memstore=%v) returned period %s of key %s: it expired (ended before clock - retention = %s) and at least ten data-carrying flushes have run since, so it must have been truncated and never reappear %s", mem, fmtTS(r.TS), r.Key, fmtTS(m.clock-m.ret), history(i))
			}
			if r.TS <= asOf {
				// an expired period may be dropped as a whole or in part (its file part
				// and its memstore part are truncated at different moments); it must
				// not hold more than was stored
				m.labels["expired-period-still-returned"] = true
				if r.Vals["_points"] < 1 || r.Vals["_points"] > w.Vals["_points"] {
					return fmt.Errorf("SELECT * (memstore=%v): expired period %s of key %s holds %v points, %v were stored %s", mem, fmtTS(r.TS), r.Key, r.Vals["_points"], w.Vals["_points"], history(i))
				}
				continue
			}
			if d := h.DiffRows([]h.RefRow{w}, []h.RefRow{r}, nil); d != "" {
				return fmt.Errorf("SELECT * (memstore=%v): period inside the retention window (%s, %s] has wrong contents: %s %s", mem, fmtTS(asOf), fmtTS(until), d, history(i))
			}
		}
		for id, w := range wantBy {
			if seen[id] {
				continue
			}
			if w.TS > asOf && w.TS <= until {
				return fmt.Errorf("SELECT * (memstore=%v) is missing key %s period %s, which lies inside the retention window (%s, %s] and has stored points: %s %s", mem, w.Key, fmtTS(w.TS), fmtTS(asOf), fmtTS(until), w, history(i))
			}
			m.labels["expired-period-not-returned"] = true
		}
		return nil
	}
	grouped := func(i int, q *h.Query) error {
		asOf, until := m.window()
		A, U := asOf, until
		if q.AsOf != nil {
			A = q.AsOf.Abs
		}
		if q.Until != nil {
			U = q.Until.Abs
		}
		got, err := db.Query(q.SQL(), h.QueryOpts{Mem: true})
		if err != nil {
			if h.IsInconclusive(err) {
				return err
			}
			if A < asOf || U > until || A >= U {
				return nil // documented refusal: window outside the table's
			}
			return fmt.Errorf("%s failed: %v %s", q.SQL(), err, history(i))
		}
		if A < asOf {
			A = asOf
		}
		if U > until {
			U = until
		}
		var sps []h.SubPoint
		for _, p := range m.accepted {
			sps = append(sps, h.SubPointsOf(p, false)...)
		}
		rq := &h.RefQ{Fields: q.Fields, Period: q.PeriodNS, AsOf: A, Until: U}
		switch {
		case q.GroupNone:
			rq.GroupBy = []string{}
		case len(q.GroupBy) > 0:
			rq.GroupBy = q.GroupBy
		default:
			rq.KeepKey = true
		}
		want := sem.Query(sps, rq)
		for _, r := range got.Rows {
			if r.TS < m.clock-m.ret-m.res {
				return fmt.Errorf("%s returned a period that ended at %s, more than one resolution before clock - retention = %s: %s %s", q.SQL(), fmtTS(r.TS), fmtTS(m.clock-m.ret), r, history(i))
			}
		}
		if d := h.DiffRows(want, got.Rows, []string{"_points", "fa"}); d != "" {
			return fmt.Errorf("%s over the window (%s, %s] differs from the aggregation of the stored points of that window: %s %s", q.SQL(), fmtTS(A), fmtTS(U), d, history(i))
		}
		return nil
	}
	for i, op := range c.Ops {
		switch op.K {
		case "ins":
			if err := db.Insert("inbound", *op.P); err != nil {
				return nil, fmt.Errorf("insert: %v", err)
			}
			m.insert(*op.P)
			justFlushed = false
		case "flush":
			if err := db.Quiesce(); err != nil {
				return nil, err
			}
			m.flush()
			db.Flush()
			justFlushed = true
			// right after a flush the file holds everything: disk-only must agree too
			if err := check(i, false); err != nil {
				return sortedLabels(m.labels), err
			}
		case "check":
			if err := check(i, true); err != nil {
				return sortedLabels(m.labels), err
			}
			if justFlushed {
				if err := check(i, false); err != nil {
					return sortedLabels(m.labels), err
				}
			}
			if op.Q != nil {
				if err := grouped(i, op.Q); err != nil {
					return sortedLabels(m.labels), err
				}
			}
		}
	}
	if m.flushes >= 10 {
		m.labels["ten-or-more-data-flushes"] = true
	}
	return sortedLabels(m.labels), nil
}

func fmtTS(ts int64) string { return time.Unix(0, ts).UTC().Format("15:04:05.000000000") }

func sortedLabels(m map[string]bool) []string {
	out := make([]string, 0, len(m))
	for k := range m {
		out = append(out, k)
	}
	sort.Strings(out)
	return out
}

func TestC14(t *testing.T) {
	rec := h.NewRec(t, "TestC14")
	rapid.Check(t, func(rt *rapid.T) {
		c := genC14(rt)
		labels, err := runC14(&c)
		// non-trivial: some period crossed the retention boundary and was then
		// touched by a flush or a late/rejected point
		nt := has(labels, "expired-period-not-returned") || has(labels, "rejected-expired-point") || has(labels, "period-must-be-truncated")
		if outcome(rec, rt, &c, nt, labels, err) {
			rt.Fatalf("%v", err)
		}
	})
}

func init() {
	register("TestC14", func(raw json.RawMessage) error {
		var c C14Case
		if err := json.Unmarshal(raw, &c); err != nil {
			return err
		}
		_, err := runC14(&c)
		return err
	})
}
