package checks

import (
	"encoding/json"
	"fmt"
	"sort"
	"strings"
	"testing"
	"time"

	"verifharness/h"

	"pgregory.net/rapid"
)

// C08Case exercises one filter clause against its defining relation.
type C08Case struct {
	Data    DataCase   `json:"data"`
	Kind    string     `json:"kind"` // where having insub fromsub
	Q       *h.Query   `json:"q"`    // base query (without the clause under test)
	Where   *h.Pred    `json:"where,omitempty"`
	Having  *h.Ex      `json:"having,omitempty"`
	InDim   string     `json:"in_dim,omitempty"`
	Sub     *h.Query   `json:"sub,omitempty"`
	Outer   []h.QField `json:"outer,omitempty"`
	OuterGB []string   `json:"outer_gb,omitempty"`
	OuterP  int        `json:"outer_p,omitempty"`
}

func c08Cfg() *h.GenCfg {
	maxPts := 30
	if h.Thorough() {
		maxPts = 80
	}
	return &h.GenCfg{MaxPoints: maxPts, MaxPeriods: 6, MaxTables: 1, MaxFields: 4, AllowWhere: true, AllowPct: false, AllowIf: true}
}

func keyDims(s *h.Schema) []string {
	sem := h.SemFor(s, "ta")
	if sem.Def.GroupAll {
		return append([]string(nil), h.DimNames...)
	}
	return append([]string(nil), sem.Def.GroupBy...)
}

func predOver(t *rapid.T, dims []string, label string) *h.Pred {
	usable := []string{}
	for _, d := range dims {
		if d == "da" || d == "db" || d == "dc" {
			usable = append(usable, d)
		}
	}
	if len(usable) == 0 {
		return nil
	}
	for tries := 0; tries < 30; tries++ {
		p := h.GenPred(t, 2, fmt.Sprintf("%s.%d", label, tries))
		used := map[string]bool{}
		p.DimNames(used)
		ok := true
		for d := range used {
			found := false
			for _, u := range usable {
				if u == d {
					found = true
				}
			}
			ok = ok && found
		}
		if ok && hasNoFalsyIn(p) {
			return p
		}
	}
	return nil
}

// hasNoFalsyIn: IN lists with zero/empty literals are outside the modelled
// domain (goexpr equates a missing value with zero values there).
func hasNoFalsyIn(p *h.Pred) bool {
	ok := true
	if p.Op == "IN" {
		for _, v := range p.List {
			if (v.K == "int" && v.I == 0) || (v.K == "str" && v.S == "") {
				ok = false
			}
		}
	}
	for _, a := range p.Args {
		ok = ok && hasNoFalsyIn(a)
	}
	return ok
}

func evalHaving(e *h.Ex, vals map[string]float64) float64 {
	switch e.Op {
	case "REF":
		return vals[e.F]
	case "CONST":
		return e.Num
	}
	l := evalHaving(e.Args[0], vals)
	r := evalHaving(e.Args[1], vals)
	b := func(x bool) float64 {
		if x {
			return 1
		}
		return 0
	}
	switch e.Op {
	case "+":
		return l + r
	case "-":
		return l - r
	case "*":
		return l * r
	case "/":
		if r == 0 {
			if l == 0 {
				return 0
			}
			return 1.7976931348623157e308
		}
		return l / r
	case "<":
		return b(l < r)
	case "<=":
		return b(l <= r)
	case "=":
		return b(l == r)
	case "<>":
		return b(l != r)
	case ">=":
		return b(l >= r)
	case ">":
		return b(l > r)
	case "AND":
		return b(l > 0 && r > 0)
	case "OR":
		return b(l > 0 || r > 0)
	}
	return 0
}

func refsOf(e *h.Ex, into map[string]bool) {
	if e.Op == "REF" {
		into[e.F] = true
	}
	for _, a := range e.Args {
		refsOf(a, into)
	}
}

func hasConst(e *h.Ex) bool {
	if e.Op == "CONST" {
		return true
	}
	for _, a := range e.Args {
		if hasConst(a) {
			return true
		}
	}
	return false
}

func genC08(t *rapid.T, excluded *int) C08Case {
	cfg := c08Cfg()
	c := C08Case{Data: genData(t, cfg)}
	s := &c.Data.Schema
	dims := keyDims(s)
	qc := &h.QCfg{Group: true, Derived: true, DataSpanP: cfg.MaxPeriods}
	c.Q = h.GenQuery(t, qc, s, "ta", "q")
	// _points is always selected so that row existence does not depend on which
	// of the selected fields happen to be set
	hasPoints := false
	for _, f := range c.Q.Fields {
		if f.Star || f.Name == "_points" {
			hasPoints = true
		}
	}
	if !hasPoints {
		c.Q.Fields = append([]h.QField{{Name: "_points"}}, c.Q.Fields...)
	}
	c.Kind = rapid.SampledFrom([]string{"where", "where", "having", "having", "insub", "fromsub"}).Draw(t, "kind")
	opNames := []string{"_points"}
	for _, f := range h.SemFor(s, "ta").Fields {
		if f.Ex.Op != "BOUNDEDTOP" && f.Ex.Op != "PCT" {
			opNames = append(opNames, f.Name)
		}
	}
	switch c.Kind {
	case "where":
		c.Where = predOver(t, dims, "w")
		if c.Where == nil {
			c.Kind = "having"
		}
	case "insub":
		var cand []string
		for _, d := range dims {
			if d == "da" || d == "db" || d == "dc" {
				cand = append(cand, d)
			}
		}
		if len(cand) == 0 {
			c.Kind = "having"
			break
		}
		c.InDim = rapid.SampledFrom(cand).Draw(t, "indim")
		sub := &h.Query{Fields: []h.QField{{Name: c.InDim}}, From: "ta", GroupBy: []string{c.InDim}}
		notnull := &h.Pred{Op: "NOTNULL", Dim: c.InDim}
		if p := predOver(t, dims, "sw"); p != nil && rapid.Bool().Draw(t, "subwhere") {
			sub.Where = &h.Pred{Op: "AND", Args: []*h.Pred{notnull, p}}
		} else {
			sub.Where = notnull
		}
		if rapid.Bool().Draw(t, "subhaving") {
			sub.Having = &h.Ex{Op: ">", Args: []*h.Ex{{Op: "REF", F: "_points"}, {Op: "CONST", Num: float64(rapid.IntRange(0, 3).Draw(t, "subhn"))}}}
		}
		c.Sub = sub
	case "fromsub":
		// inner: native-resolution query keeping or reducing dims
		inner := &h.Query{Fields: []h.QField{{Star: true}}, From: "ta"}
		if rapid.Bool().Draw(t, "innergb") && len(dims) > 0 {
			k := rapid.IntRange(1, len(dims)).Draw(t, "innerk")
			perm := rapid.Permutation(dims).Draw(t, "innerp")
			inner.GroupBy = append([]string(nil), perm[:k]...)
		} else {
			inner.GroupStar = true
		}
		c.Sub = inner
		innerDims := inner.GroupBy
		if inner.GroupStar {
			innerDims = dims
		}
		names := append([]string{"_points"}, tableFieldNames(s, "ta")...)
		n := rapid.IntRange(1, 3).Draw(t, "nouter")
		seen := map[string]bool{}
		for i := 0; i < n; i++ {
			nm := rapid.SampledFrom(names).Draw(t, fmt.Sprintf("outer%d", i))
			if !seen[nm] {
				seen[nm] = true
				c.Outer = append(c.Outer, h.QField{Name: nm})
			}
		}
		if rapid.Bool().Draw(t, "outeragg") {
			nm := rapid.SampledFrom(names).Draw(t, "outeraggf")
			op := rapid.SampledFrom([]string{"AVG", "MIN", "MAX", "COUNT"}).Draw(t, "outeraggop")
			c.Outer = append(c.Outer, h.QField{Name: "q0", Ex: &h.Ex{Op: op, F: nm}})
		}
		if rapid.Bool().Draw(t, "outergb") && len(innerDims) > 0 {
			k := rapid.IntRange(1, len(innerDims)).Draw(t, "outerk")
			perm := rapid.Permutation(innerDims).Draw(t, "outerp")
			c.OuterGB = append([]string(nil), perm[:k]...)
		}
		c.OuterP = rapid.SampledFrom([]int{0, 1, 2, 3}).Draw(t, "outerper")
	}
	if c.Kind == "having" {
		c.Having = genHavingC08(t, opNames, 1, "h", excluded)
		// an output field may carry the name of a table field while being a
		// different expression; HAVING then means the output field
		star := false
		sel := map[string]bool{}
		for _, f := range c.Q.Fields {
			star = star || f.Star
			sel[f.Name] = true
		}
		var free []string
		for _, n := range opNames[1:] {
			if !sel[n] {
				free = append(free, n)
			}
		}
		if !star && len(free) > 0 && len(opNames) > 1 && rapid.IntRange(0, 2).Draw(t, "shadow") == 0 {
			nm := rapid.SampledFrom(free).Draw(t, "shadow.name")
			a := rapid.SampledFrom(opNames).Draw(t, "shadow.a")
			b := rapid.SampledFrom(opNames).Draw(t, "shadow.b")
			op := rapid.SampledFrom([]string{"+", "-", "*"}).Draw(t, "shadow.op")
			c.Q.Fields = append(c.Q.Fields, h.QField{Name: nm, Ex: &h.Ex{Op: op, Args: []*h.Ex{{Op: "REF", F: a}, {Op: "REF", F: b}}}})
			type tmpl struct {
				op     string
				lo, hi int
			}
			tm := rapid.SampledFrom([]tmpl{{">", 0, 6}, {">=", 1, 6}, {"<", -3, 0}, {"<>", 0, 0}}).Draw(t, "shadow.tmpl")
			cond := &h.Ex{Op: tm.op, Args: []*h.Ex{{Op: "REF", F: nm}, {Op: "CONST", Num: float64(rapid.IntRange(tm.lo, tm.hi).Draw(t, "shadow.c"))}}}
			if rapid.Bool().Draw(t, "shadow.and") {
				c.Having = &h.Ex{Op: "AND", Args: []*h.Ex{cond, c.Having}}
			} else {
				c.Having = cond
			}
		}
		// HAVING over a crosstab query: the condition is evaluated on the
		// non-crosstab values of the output group
		if rapid.IntRange(0, 2).Draw(t, "hct") == 0 {
			var sdims []string
			for _, d := range dims {
				if d == "da" || d == "dc" {
					sdims = append(sdims, d)
				}
			}
			if len(sdims) > 0 {
				ct := rapid.SampledFrom(sdims).Draw(t, "hctd")
				var rest []string
				for _, d := range dims {
					if d != ct && rapid.Bool().Draw(t, "hctkeep."+d) {
						rest = append(rest, d)
					}
				}
				c.Q.GroupBy, c.Q.GroupStar, c.Q.GroupNone = rest, false, len(rest) == 0
				c.Q.Crosstab = []string{ct}
				c.Q.CrosstabT = rapid.Bool().Draw(t, "hctt")
			}
		}
	}
	return c
}

// genHavingC08 draws a HAVING condition from the sub-grammar on which the
// statement's reading ("rows whose output values satisfy the predicate") is
// unambiguous on the pinned tree: every comparison has a constant operand and
// is false for an all-zero row. Two listed findings are excluded this way and
// counted: a comparison whose operands are all unset evaluates to unset (row
// dropped although 0 cmp 0 may hold), and a constant-bearing condition that
// holds for all-zero values makes empty gap periods appear as rows.
func genHavingC08(t *rapid.T, names []string, depth int, label string, excluded *int) *h.Ex {
	if depth > 0 && rapid.IntRange(0, 2).Draw(t, label+".k") == 0 {
		op := rapid.SampledFrom([]string{"AND", "OR"}).Draw(t, label+".bop")
		return &h.Ex{Op: op, Args: []*h.Ex{genHavingC08(t, names, depth-1, label+".l", excluded), genHavingC08(t, names, depth-1, label+".r", excluded)}}
	}
	ref := func(l string) *h.Ex { return &h.Ex{Op: "REF", F: rapid.SampledFrom(names).Draw(t, l)} }
	var left *h.Ex
	if rapid.IntRange(0, 2).Draw(t, label+".der") == 0 {
		left = &h.Ex{Op: rapid.SampledFrom([]string{"+", "-", "*", "/"}).Draw(t, label+".dop"), Args: []*h.Ex{ref(label + ".a"), ref(label + ".b")}}
	} else {
		left = ref(label + ".a")
	}
	if rapid.IntRange(0, 3).Draw(t, label+".other") == 0 {
		*excluded++ // field-vs-field comparison or true-at-zero condition: see above
	}
	type tmpl struct {
		op string
		lo int
		hi int
	}
	tm := rapid.SampledFrom([]tmpl{{">", 0, 6}, {">=", 1, 6}, {"<", -3, 0}, {"<=", -3, -1}, {"<>", 0, 0}, {"=", 1, 4}}).Draw(t, label+".tmpl")
	return &h.Ex{Op: tm.op, Args: []*h.Ex{left, {Op: "CONST", Num: float64(rapid.IntRange(tm.lo, tm.hi).Draw(t, label+".c"))}}}
}

func withClock(d *DataCase, prefix string, pts []h.Point, now int64, fn func(db *h.DB) error) error {
	dd := *d
	dd.Points = pts
	// keep the storage split proportional
	if len(pts) != len(d.Points) {
		dd.FlushAt = nil
		for _, f := range d.FlushAt {
			if len(d.Points) > 0 {
				dd.FlushAt = append(dd.FlushAt, f*len(pts)/len(d.Points))
			}
		}
	}
	return dd.withDB(prefix, h.DBConf{}, func(db *h.DB) error {
		db.Z.VerifAdvanceClock(time.Unix(0, now))
		return fn(db)
	})
}

func runC08(c *C08Case) error {
	s := &c.Data.Schema
	sem := h.SemFor(s, "ta")
	now := maxTS(c.Data.Points)
	switch c.Kind {
	case "where":
		q := *c.Q
		q.Where = c.Where
		var got, want qOutcome
		if err := withClock(&c.Data, "c08a", c.Data.Points, now, func(db *h.DB) error {
			res, err := db.Query(q.SQL(), h.QueryOpts{Mem: true})
			if err != nil && h.IsInconclusive(err) {
				return err
			}
			got = qOutcome{res, err}
			return nil
		}); err != nil {
			return err
		}
		// second database: only the points whose stored key satisfies the predicate
		var kept []h.Point
		for _, p := range c.Data.Points {
			dims := map[string]h.Val{}
			for _, kv := range p.Dims {
				dims[kv.N] = kv.V
			}
			isKey := map[string]bool{}
			for _, d := range keyDims(s) {
				isKey[d] = true
			}
			if sem.Def.GroupAll {
				isKey[h.MixedDim] = true
			}
			get := func(n string) (h.Val, bool) {
				if !isKey[n] {
					return h.Val{}, false
				}
				v, ok := dims[n]
				return v, ok
			}
			if c.Where.Eval(get) {
				kept = append(kept, p)
			}
		}
		if err := withClock(&c.Data, "c08b", kept, now, func(db *h.DB) error {
			res, err := db.Query(c.Q.SQL(), h.QueryOpts{Mem: true})
			if err != nil && h.IsInconclusive(err) {
				return err
			}
			want = qOutcome{res, err}
			return nil
		}); err != nil {
			return err
		}
		if d := sameOutcome(c.Q, want, got); d != "" {
			return fmt.Errorf("%s\ndiffers from the WHERE-free query over only the %d of %d points whose key satisfies the predicate:\n%s", q.SQL(), len(kept), len(c.Data.Points), d)
		}
	case "having":
		qh := *c.Q
		qh.Having = c.Having
		free := *c.Q
		needed := map[string]bool{}
		refsOf(c.Having, needed)
		star := false
		have := map[string]bool{}
		for _, f := range free.Fields {
			if f.Star {
				star = true
			}
			have[f.Name] = true
		}
		free.Fields = append([]h.QField(nil), free.Fields...)
		for _, n := range h.SortedNames(needed) {
			if !have[n] && !(star && n != "_points" && false) {
				free.Fields = append(free.Fields, h.QField{Name: n})
			}
		}
		if len(c.Q.Crosstab) > 0 {
			return runHavingCrosstab(c, &qh, &free, now)
		}
		return withClock(&c.Data, "c08h", c.Data.Points, now, func(db *h.DB) error {
			got, err := db.Query(qh.SQL(), h.QueryOpts{Mem: true})
			if err != nil {
				if h.IsInconclusive(err) {
					return err
				}
				return fmt.Errorf("%s: error %v", qh.SQL(), err)
			}
			all, err := db.Query(free.SQL(), h.QueryOpts{Mem: true})
			if err != nil {
				if h.IsInconclusive(err) {
					return err
				}
				return fmt.Errorf("%s: error %v", free.SQL(), err)
			}
			for _, f := range got.Fields {
				if f == "_having" {
					return fmt.Errorf("%s: the helper column _having is exposed in the field list %v", qh.SQL(), got.Fields)
				}
			}
			var want []h.RefRow
			for _, r := range all.Rows {
				if evalHaving(c.Having, r.Vals) == 1 {
					rr := h.RefRow{TS: r.TS, Key: r.Key, Vals: map[string]float64{}}
					for _, f := range got.Fields {
						rr.Vals[f] = r.Vals[f]
					}
					want = append(want, rr)
				}
			}
			if d := h.DiffRows(want, got.Rows, got.Fields); d != "" {
				return fmt.Errorf("%s\ndiffers from the rows of %s that satisfy the condition:\n%s", qh.SQL(), free.SQL(), d)
			}
			return nil
		})
	case "insub":
		q := *c.Q
		q.WhereIn = &h.InSub{Dim: c.InDim, Sub: c.Sub}
		return withClock(&c.Data, "c08i", c.Data.Points, now, func(db *h.DB) error {
			sub, err := db.Query(c.Sub.SQL(), h.QueryOpts{Mem: true, IsSub: true})
			if err != nil {
				if h.IsInconclusive(err) {
					return err
				}
				return fmt.Errorf("%w: subquery alone failed: %v", errSetup, err)
			}
			seen := map[string]h.Val{}
			for _, r := range sub.Rows {
				switch v := r.KeyMap[c.InDim].(type) {
				case string:
					seen["s"+v] = h.StrV(v)
				case int:
					seen[fmt.Sprintf("i%d", v)] = h.IntV(int64(v))
				}
			}
			got, err := db.Query(q.SQL(), h.QueryOpts{Mem: true})
			if err != nil {
				if h.IsInconclusive(err) {
					return err
				}
				return fmt.Errorf("%s: error %v", q.SQL(), err)
			}
			if len(seen) == 0 {
				if len(got.Rows) != 0 {
					return fmt.Errorf("%s: the subquery returns no value but the outer query returns %d rows", q.SQL(), len(got.Rows))
				}
				return nil
			}
			keys := make([]string, 0, len(seen))
			for k := range seen {
				keys = append(keys, k)
			}
			sort.Strings(keys)
			lit := &h.Pred{Op: "IN", Dim: c.InDim}
			for _, k := range keys {
				lit.List = append(lit.List, seen[k])
			}
			ql := *c.Q
			ql.Where = lit
			want, err := db.Query(ql.SQL(), h.QueryOpts{Mem: true})
			if err != nil {
				return fmt.Errorf("%s: error %v", ql.SQL(), err)
			}
			if d := sameOutcome(c.Q, qOutcome{want, nil}, qOutcome{got, nil}); d != "" {
				return fmt.Errorf("%s\ndiffers from %s:\n%s", q.SQL(), ql.SQL(), d)
			}
			return nil
		})
	case "fromsub":
		outer := &h.Query{Fields: c.Outer, FromSub: c.Sub, GroupBy: c.OuterGB}
		innerSem := h.SemFor(s, "ta")
		res := innerSem.Def.ResNS
		if c.OuterP > 0 {
			outer.PeriodNS = int64(c.OuterP) * res
		}
		return withClock(&c.Data, "c08f", c.Data.Points, now, func(db *h.DB) error {
			inner, err := db.Query(c.Sub.SQL(), h.QueryOpts{Mem: true})
			if err != nil {
				if h.IsInconclusive(err) {
					return err
				}
				return fmt.Errorf("%w: inner query alone failed: %v", errSetup, err)
			}
			got, err := db.Query(outer.SQL(), h.QueryOpts{Mem: true})
			if err != nil {
				if h.IsInconclusive(err) {
					return err
				}
				return fmt.Errorf("%s: error %v", outer.SQL(), err)
			}
			// evaluate the outer query over the materialised inner rows
			innerDims := c.Sub.GroupBy
			if c.Sub.GroupStar {
				innerDims = nil
			}
			var pts []h.SubPoint
			for _, r := range inner.Rows {
				sp := h.SubPoint{TS: r.TS, Dims: map[string]h.Val{}, Vals: map[string]float64{}}
				for n, v := range r.KeyMap {
					switch t := v.(type) {
					case string:
						sp.Dims[n] = h.StrV(t)
					case int:
						sp.Dims[n] = h.IntV(int64(t))
					case bool:
						sp.Dims[n] = h.BoolV(t)
					default:
						sp.Dims[n] = h.Val{K: "other", S: h.CanonGo(v)}
					}
				}
				for n, v := range r.Vals {
					sp.Vals[n] = v
				}
				pts = append(pts, sp)
			}
			_ = innerDims
			def := &h.TableDef{Name: "outer", ResNS: res, GroupAll: len(c.OuterGB) == 0, GroupBy: c.OuterGB}
			osem := &h.TableSem{Def: def}
			var fields []h.QField
			for _, f := range c.Outer {
				ex := f.Ex
				if ex == nil {
					ex = &h.Ex{Op: "SUM", F: f.Name}
				}
				fields = append(fields, h.QField{Name: f.Name, Ex: ex})
			}
			rq := &h.RefQ{Fields: fields, GroupBy: c.OuterGB, KeepKey: len(c.OuterGB) == 0, AsOf: inner.AsOf, Until: inner.Until}
			if c.OuterP > 0 {
				rq.Period = int64(c.OuterP) * res
			}
			want := osem.Query(pts, rq)
			for i := range want {
				if strings.Contains(want[i].Key, "other:") {
					return nil // mixed-type dim value outside the modelled key universe
				}
			}
			if d := h.DiffRows(want, got.Rows, nil); d != "" {
				return fmt.Errorf("%s\ndiffers from evaluating the outer query over the %d materialised rows of %s:\n%s", outer.SQL(), len(inner.Rows), c.Sub.SQL(), d)
			}
			return nil
		})
	}
	return nil
}

// runHavingCrosstab: HAVING on a CROSSTAB query keeps exactly those output
// rows (key, period) for which the condition holds on the group's plain
// (non-crosstab) values, which the same query without CROSSTAB reports.
func runHavingCrosstab(c *C08Case, qh, free *h.Query, now int64) error {
	plain := *free
	plain.Crosstab = nil
	ctFree := *c.Q
	return withClock(&c.Data, "c08x", c.Data.Points, now, func(db *h.DB) error {
		got, err := db.Query(qh.SQL(), h.QueryOpts{Mem: true})
		if err != nil {
			if h.IsInconclusive(err) {
				return err
			}
			return fmt.Errorf("%s: error %v", qh.SQL(), err)
		}
		all, err := db.Query(ctFree.SQL(), h.QueryOpts{Mem: true})
		if err != nil {
			return fmt.Errorf("%s: error %v", ctFree.SQL(), err)
		}
		vals, err := db.Query(plain.SQL(), h.QueryOpts{Mem: true})
		if err != nil {
			return fmt.Errorf("%s: error %v", plain.SQL(), err)
		}
		for _, f := range got.Fields {
			if f == "_having" {
				return fmt.Errorf("%s: the helper column _having is exposed in the field list %v", qh.SQL(), got.Fields)
			}
		}
		keep := map[string]bool{}
		for _, r := range vals.Rows {
			if evalHaving(c.Having, r.Vals) == 1 {
				keep[fmt.Sprintf("%s@%d", r.Key, r.TS)] = true
			}
		}
		var want []h.RefRow
		for _, r := range all.Rows {
			if keep[fmt.Sprintf("%s@%d", r.Key, r.TS)] {
				want = append(want, r)
			}
		}
		if strings.Join(all.Fields, ",") != strings.Join(got.Fields, ",") {
			return fmt.Errorf("%s: field list %v differs from the HAVING-free query's %v", qh.SQL(), got.Fields, all.Fields)
		}
		if d := h.DiffRows(want, got.Rows, got.Fields); d != "" {
			return fmt.Errorf("%s\ndiffers from the rows of %s whose group satisfies the condition (values from %s):\n%s", qh.SQL(), ctFree.SQL(), plain.SQL(), d)
		}
		return nil
	})
}

func classifyC08(c *C08Case) (bool, []string) {
	labels := append(c.Data.splitLabels(), "kind-"+c.Kind)
	if c.Q.Regroups() {
		labels = append(labels, "regrouping")
	}
	if c.Kind == "having" && len(c.Q.Crosstab) > 0 {
		labels = append(labels, "having-crosstab")
		if c.Q.CrosstabT {
			labels = append(labels, "having-crosstabt")
		}
	}
	return len(c.Data.Points) >= 3, labels
}

func TestC08(t *testing.T) {
	rec := h.NewRec(t, "TestC08")
	excluded := 0
	defer func() { rec.Excluded(excluded) }()
	probesC08(rec)
	rapid.Check(t, func(rt *rapid.T) {
		c := genC08(rt, &excluded)
		nt, labels := classifyC08(&c)
		err := runC08(&c)
		if outcome(rec, rt, &c, nt, labels, err) {
			rt.Fatalf("%v", err)
		}
	})
}

func init() {
	register("TestC08", func(raw json.RawMessage) error {
		var c C08Case
		if err := json.Unmarshal(raw, &c); err != nil {
			return err
		}
		return runC08(&c)
	})
}

// probesC08 runs the fixed probes of the findings listed for C08.
func probesC08(rec *h.Rec) {
	tbl := simpleTable("ta", []h.FieldDef{{Name: "fa", Ex: &h.Ex{Op: "SUM", F: "va"}}, {Name: "fb", Ex: &h.Ex{Op: "SUM", F: "vb"}}}, []string{"da"})
	sel := []h.QField{{Name: "_points"}, {Name: "fa"}, {Name: "fb"}}
	// 1. both operands unset: the row's output values (0 >= 0) satisfy the
	// predicate but the row is dropped
	c1 := C08Case{
		Data:   DataCase{Schema: h.Schema{Tables: []h.TableDef{tbl}}, Points: []h.Point{{TS: h.BaseTS, Dims: []h.KV{{N: "da", V: h.StrV("x")}}, Vals: []h.KV{{N: "vc", V: h.IntV(1)}}}, {TS: h.BaseTS, Dims: []h.KV{{N: "da", V: h.StrV("y")}}, Vals: []h.KV{{N: "va", V: h.IntV(1)}, {N: "vb", V: h.IntV(1)}}}}},
		Kind:   "having",
		Q:      &h.Query{Fields: sel, From: "ta", GroupStar: true},
		Having: &h.Ex{Op: ">=", Args: []*h.Ex{{Op: "REF", F: "fa"}, {Op: "REF", F: "fb"}}},
	}
	probe(rec, "TestC08", "having-unset-operands", "HAVING fa >= fb drops a row whose fa and fb are both unset although its output values (0 >= 0) satisfy the predicate: a comparison of two unset fields evaluates to unset", c1, func() error { return runC08(&c1) })
	// 2. constant-bearing condition that holds for all-zero values: empty gap
	// periods between two points of a key come back as rows
	c2 := C08Case{
		Data:   DataCase{Schema: h.Schema{Tables: []h.TableDef{tbl}}, Points: []h.Point{{TS: h.BaseTS, Dims: []h.KV{{N: "da", V: h.StrV("x")}}, Vals: []h.KV{{N: "va", V: h.IntV(1)}}}, {TS: h.BaseTS + 3e9, Dims: []h.KV{{N: "da", V: h.StrV("x")}}, Vals: []h.KV{{N: "va", V: h.IntV(1)}}}}},
		Kind:   "having",
		Q:      &h.Query{Fields: sel, From: "ta", GroupStar: true},
		Having: &h.Ex{Op: "<", Args: []*h.Ex{{Op: "REF", F: "fa"}, {Op: "CONST", Num: 5}}},
	}
	probe(rec, "TestC08", "const-operand-gap-rows", "HAVING fa < 5 returns rows (all zero, _points=0) for the empty periods between two points of a key, which the HAVING-free query does not return", c2, func() error { return runC08(&c2) })
}
