package checks

import (
	"encoding/json"
	"fmt"
	"sort"
	"strings"
	"testing"

	"verifharness/h"

	"pgregory.net/rapid"
)

// C10Case: a dataset inserted through the leaders of an in-process cluster
// with real WAL replication, compared with a standalone database.
type C10Case struct {
	Data     DataCase      `json:"data"`
	Conf     h.ClusterConf `json:"conf"`
	LeaderOf []int         `json:"leader_of"`
	FlushFol bool          `json:"flush_followers"`
	Queries  []*h.Query    `json:"queries"`
}

func c10Cfg() *h.GenCfg {
	maxPts := 25
	if h.Thorough() {
		maxPts = 60
	}
	return &h.GenCfg{MaxPoints: maxPts, MaxPeriods: 6, MaxTables: 2, MaxFields: 3, AllowWhere: true, AllowPct: false, AllowIf: true}
}

// genClusterSchema draws a schema whose tables are partitioned either by a
// subset of their group-by dims or (tables that group by all dims) by all dims.
func genClusterSchema(t *rapid.T, cfg *h.GenCfg, excluded *int) h.Schema {
	s := h.GenSchema(t, cfg)
	for i := range s.Tables {
		tb := &s.Tables[i]
		if tb.GroupAll {
			if rapid.Bool().Draw(t, fmt.Sprintf("part%d", i)) {
				k := rapid.IntRange(1, 2).Draw(t, fmt.Sprintf("npart%d", i))
				perm := rapid.Permutation(append([]string(nil), h.DimNames...)).Draw(t, fmt.Sprintf("partperm%d", i))
				tb.PartBy = append([]string(nil), perm[:k]...)
			}
		} else {
			// a table with named group-by dims and no partition keys is the listed
			// finding pushdown-splits-table-key: always partitioned by its own dims
			*excluded++
			k := rapid.IntRange(1, len(tb.GroupBy)).Draw(t, fmt.Sprintf("npart%d", i))
			perm := rapid.Permutation(append([]string(nil), tb.GroupBy...)).Draw(t, fmt.Sprintf("partperm%d", i))
			tb.PartBy = append([]string(nil), perm[:k]...)
		}
		if rapid.Bool().Draw(t, fmt.Sprintf("sortpart%d", i)) {
			sort.Strings(tb.PartBy)
		}
	}
	return s
}

func genC10(t *rapid.T, excluded *int) C10Case {
	cfg := c10Cfg()
	c := C10Case{}
	c.Data.Schema = genClusterSchema(t, cfg, excluded)
	n := rapid.IntRange(1, cfg.MaxPoints).Draw(t, "npoints")
	c.Conf = h.ClusterConf{Partitions: rapid.IntRange(1, 5).Draw(t, "partitions"), Leaders: rapid.IntRange(1, 2).Draw(t, "leaders"), FollowersPer: rapid.IntRange(1, 2).Draw(t, "followers")}
	for i := 0; i < n; i++ {
		c.Data.Points = append(c.Data.Points, h.GenPoint(t, cfg, &c.Data.Schema, cfg.MaxPeriods, fmt.Sprintf("p%d", i)))
		c.LeaderOf = append(c.LeaderOf, rapid.IntRange(0, c.Conf.Leaders-1).Draw(t, fmt.Sprintf("l%d", i)))
	}
	c.FlushFol = rapid.Bool().Draw(t, "flushfol")
	nq := rapid.IntRange(1, 3).Draw(t, "nq")
	for i := 0; i < nq; i++ {
		tbl := c.Data.Schema.Tables[rapid.IntRange(0, len(c.Data.Schema.Tables)-1).Draw(t, fmt.Sprintf("qt%d", i))].Name
		q := h.GenQuery(t, h.FullQ(cfg.MaxPeriods), &c.Data.Schema, tbl, fmt.Sprintf("q%d", i))
		stripTextualKeywords(q, excluded)
		c.Queries = append(c.Queries, q)
	}
	return c
}

// clusterAccounting checks that every table's rows are spread over the
// partitions exactly once and that redundant followers agree.
func clusterAccounting(cl *h.Cluster, s *h.Schema, want map[string]*h.Result) error {
	for _, tb := range s.Tables {
		var union []h.RefRow
		first := map[int]*h.Result{}
		for _, f := range cl.Followers {
			if !f.Up() {
				continue
			}
			res, err := f.Query("SELECT * FROM "+tb.Name, h.QueryOpts{Mem: true})
			if err != nil {
				if h.IsInconclusive(err) {
					return err
				}
				return fmt.Errorf("follower %d.%d: SELECT * FROM %s: %v", f.Partition, f.ID, tb.Name, err)
			}
			if prev, ok := first[f.Partition]; ok {
				if d := h.DiffRows(prev.Rows, res.Rows, prev.Fields); d != "" {
					return fmt.Errorf("redundant followers of partition %d differ on table %s:\n%s", f.Partition, tb.Name, d)
				}
				continue
			}
			first[f.Partition] = res
			union = append(union, res.Rows...)
		}
		// merge rows of the same (key, period) across partitions by adding
		// _points; with partition keys inside the group key there is nothing to merge
		type gk struct {
			key string
			ts  int64
		}
		points := map[gk]float64{}
		for _, r := range union {
			points[gk{r.Key, r.TS}] += r.Vals["_points"]
		}
		wantPoints := map[gk]float64{}
		for _, r := range want[tb.Name].Rows {
			wantPoints[gk{r.Key, r.TS}] += r.Vals["_points"]
		}
		for k, v := range wantPoints {
			if points[k] != v {
				return fmt.Errorf("table %s key [%s] period %d: the partitions hold %v points in total, the standalone database %v (each accepted point must be applied by exactly one partition)", tb.Name, k.key, k.ts, points[k], v)
			}
		}
		for k, v := range points {
			if _, ok := wantPoints[k]; !ok && v != 0 {
				return fmt.Errorf("table %s key [%s] period %d: partitions hold %v points the standalone database does not have", tb.Name, k.key, k.ts, v)
			}
		}
		partitionedInsideKey := len(tb.PartBy) > 0 || tb.GroupAll
		if partitionedInsideKey && len(union) != len(want[tb.Name].Rows) {
			return fmt.Errorf("table %s: %d rows over all partitions, %d in the standalone database", tb.Name, len(union), len(want[tb.Name].Rows))
		}
	}
	return nil
}

func runC10(c *C10Case) error {
	now := maxTS(c.Data.Points)
	var local []qOutcome
	tables := map[string]*h.Result{}
	if err := withClock(&c.Data, "c10s", c.Data.Points, now, func(db *h.DB) error {
		var err error
		if local, err = runQueries(db, c.Queries, true); err != nil {
			return err
		}
		for _, tb := range c.Data.Schema.Tables {
			res, err := db.Query("SELECT * FROM "+tb.Name, h.QueryOpts{Mem: true})
			if err != nil {
				return fmt.Errorf("%w: standalone SELECT *: %v", errSetup, err)
			}
			tables[tb.Name] = res
		}
		return nil
	}); err != nil {
		return err
	}
	root := h.ScratchDir("c10c")
	defer removeAll(root)
	cl, err := h.OpenCluster(root, &c.Data.Schema, c.Conf)
	if err != nil {
		if h.IsInconclusive(err) {
			return err
		}
		return fmt.Errorf("%w: open cluster: %v", errSetup, err)
	}
	defer cl.Close()
	for i, p := range c.Data.Points {
		if err := cl.Insert(c.LeaderOf[i], "inbound", p); err != nil {
			return fmt.Errorf("leader insert: %v", err)
		}
	}
	if err := cl.Quiesce(); err != nil {
		return err
	}
	if c.FlushFol {
		for _, f := range cl.Followers {
			f.Z.FlushAll()
		}
	}
	cl.AdvanceClocks(now)
	if err := clusterAccounting(cl, &c.Data.Schema, tables); err != nil {
		return err
	}
	for i, q := range c.Queries {
		res, err := cl.QueryLeader(i%c.Conf.Leaders, q.SQL(), h.QueryOpts{Mem: true})
		if err != nil && h.IsInconclusive(err) {
			return err
		}
		if err != nil && strings.Contains(err.Error(), "missing partitions") {
			return fmt.Errorf("%w: %v", h.ErrInconclusive, err)
		}
		if err == nil && res.Stats != nil && (res.Stats.NumSuccessfulPartitions != c.Conf.Partitions || len(res.Stats.MissingPartitions) > 0) {
			return fmt.Errorf("%w: partitions not all successful: %+v", h.ErrInconclusive, res.Stats)
		}
		if d := sameOutcome(q, local[i], qOutcome{res, err}); d != "" {
			return fmt.Errorf("cluster %+v disagrees with the standalone database on\n%s\n%s", c.Conf, q.SQL(), d)
		}
	}
	return nil
}

func classifyC10(c *C10Case) (bool, []string) {
	labels := []string{fmt.Sprintf("partitions-%d", c.Conf.Partitions), fmt.Sprintf("leaders-%d", c.Conf.Leaders), fmt.Sprintf("followers-per-%d", c.Conf.FollowersPer)}
	if c.FlushFol {
		labels = append(labels, "followers-flushed")
	}
	regroup := false
	for _, q := range c.Queries {
		if q.Regroups() || q.Where != nil || len(q.OrderBy) > 0 {
			regroup = true
		}
	}
	if len(c.Data.Schema.Tables) > 1 {
		labels = append(labels, "two-tables")
	}
	return regroup && c.Conf.Partitions >= 2 && len(c.Data.Points) >= 3, labels
}

func TestC10(t *testing.T) {
	rec := h.NewRec(t, "TestC10")
	excluded := 0
	defer func() { rec.Excluded(excluded) }()
	rapid.Check(t, func(rt *rapid.T) {
		c := genC10(rt, &excluded)
		nt, labels := classifyC10(&c)
		err := runC10(&c)
		if outcome(rec, rt, &c, nt, labels, err) {
			rt.Fatalf("%v", err)
		}
	})
}

func init() {
	register("TestC10", func(raw json.RawMessage) error {
		var c C10Case
		if err := json.Unmarshal(raw, &c); err != nil {
			return err
		}
		return runC10(&c)
	})
}
