package checks

import (
	"context"
	"encoding/json"
	"fmt"
	"net"
	"strings"
	"sync/atomic"
	"testing"
	"time"

	"verifharness/h"

	"github.com/getlantern/zenodb/rpc"
	rpcserver "github.com/getlantern/zenodb/rpc/server"
	"pgregory.net/rapid"
)

// C20 (c): followers answering for a leader over RPC. The same partition
// databases serve two passthrough leaders: leader A through harness handlers
// registered in-process (nothing is serialised), leader B through the real
// gRPC path (rpcserver on the leader, rpc.Client.ProcessRemoteQuery on each
// partition, exactly what server.go wires). Every query - its text, memstore
// flag, deadline, subquery results going out; fields, rows and statistics
// coming back - must mean the same on both sides.

type C20ClusterCase struct {
	C        C11Case `json:"c"`
	Mem      bool    `json:"mem"`
	Flushed  bool    `json:"flushed"`  // partition data flushed to disk (else it lives in the memstores)
	Deadline bool    `json:"deadline"` // the caller's context carries a (generous) deadline
}

func genC20Cluster(t *rapid.T, excluded *int) C20ClusterCase {
	c := C20ClusterCase{C: genC11(t, excluded)}
	if c.C.N > 4 {
		c.C.N = 1 + c.C.N%4
	}
	if c.C.N < 2 && rapid.Bool().Draw(t, "two") {
		c.C.N = 2
	}
	c.Mem = rapid.IntRange(0, 3).Draw(t, "mem") > 0
	c.Flushed = rapid.Bool().Draw(t, "flushed")
	c.Deadline = rapid.Bool().Draw(t, "deadline")
	// value-ordered queries exercise the field binding of rows that crossed the wire
	for i, q := range c.C.Queries {
		if len(q.OrderBy) == 0 && rapid.IntRange(0, 2).Draw(t, fmt.Sprintf("ord%d", i)) == 0 {
			var cands []string
			for _, f := range q.Fields {
				if !f.Star && f.Name != "" {
					cands = append(cands, f.Name)
				}
			}
			if len(cands) > 0 {
				q.OrderBy = []h.OrderKey{{Field: rapid.SampledFrom(cands).Draw(t, fmt.Sprintf("ordf%d", i)), Desc: rapid.Bool().Draw(t, fmt.Sprintf("ordd%d", i))}}
			}
		}
	}
	return c
}

// orderKeysEqual compares the ORDER BY key values of two results row by row.
func orderKeysEqual(q *h.Query, a, b *h.Result) string {
	if len(q.OrderBy) == 0 || a == nil || b == nil {
		return ""
	}
	if len(a.Rows) != len(b.Rows) {
		return fmt.Sprintf("row counts differ: %d vs %d", len(a.Rows), len(b.Rows))
	}
	if orderKeyNaN(q, a) || orderKeyNaN(q, b) {
		return "" // NaN in an ORDER BY key: the comparator is not an order, any sequence is possible
	}
	for i := range a.Rows {
		for _, k := range q.OrderBy {
			if k.Field == "_time" {
				if a.Rows[i].TS != b.Rows[i].TS {
					return fmt.Sprintf("row %d: _time %d vs %d", i, a.Rows[i].TS, b.Rows[i].TS)
				}
				continue
			}
			av, aok := a.Rows[i].Vals[k.Field]
			bv, bok := b.Rows[i].Vals[k.Field]
			if aok && bok && !h.FloatEq(av, bv) {
				return fmt.Sprintf("row %d: ORDER BY key %s is %v on one side and %v on the other", i, k.Field, av, bv)
			}
			ad, adok := a.Rows[i].KeyMap[k.Field]
			bd, bdok := b.Rows[i].KeyMap[k.Field]
			if !aok && !bok && adok && bdok && h.CanonGo(ad) != h.CanonGo(bd) {
				return fmt.Sprintf("row %d: ORDER BY key %s is %v on one side and %v on the other", i, k.Field, ad, bd)
			}
		}
	}
	return ""
}

func runC20Cluster(c *C20ClusterCase) error {
	now := maxTS(c.C.Data.Points)
	cc := c.C
	if !c.Flushed {
		cc.Data.FlushAt = nil
	}
	fa, err := openClusterFixtureWith(&cc, now, h.QuiesceTimeout, c.Flushed)
	if err != nil {
		return err
	}
	defer fa.close()
	for i, p := range fa.parts {
		fa.leader.Serve(i, h.FollowerHandler(p.Z))
	}
	// leader B: same partition databases, reached over gRPC
	ldir := h.ScratchDir("c20lb")
	defer removeAll(ldir)
	leaderB, err := h.OpenPlanLeaderT(ldir, &cc.Data.Schema, cc.N, h.QuiesceTimeout)
	if err != nil {
		return fmt.Errorf("%w: open leader: %v", errSetup, err)
	}
	defer leaderB.Close()
	leaderB.Z.VerifAdvanceClock(time.Unix(0, now))
	l, err := net.Listen("tcp", "127.0.0.1:0")
	if err != nil {
		return fmt.Errorf("%w: listen: %v", errSetup, err)
	}
	defer l.Close()
	serve, stopServer := rpcserver.PrepareServer(leaderB.Z, l, &rpcserver.Opts{ID: 9})
	go serve()
	defer stopServer()
	var stopped int32
	defer atomic.StoreInt32(&stopped, 1)
	for i, p := range fa.parts {
		// a few connections per partition, each handling one query and reconnecting
		for k := 0; k < 8; k++ {
			client, err := rpc.Dial(l.Addr().String(), &rpc.ClientOpts{Dialer: func(addr string, timeout time.Duration) (net.Conn, error) {
				return net.DialTimeout("tcp", addr, timeout)
			}})
			if err != nil {
				return fmt.Errorf("%w: dial: %v", errSetup, err)
			}
			defer client.Close()
			go func(partition int, fn interface{}) {
				for atomic.LoadInt32(&stopped) == 0 {
					if err := client.ProcessRemoteQuery(context.Background(), partition, h.FollowerHandler(p.Z), 2*time.Second); err != nil {
						time.Sleep(2 * time.Millisecond)
					}
				}
			}(i, nil)
		}
	}
	// a query (plus its subqueries) consumes one handler per partition and
	// phase: wait until every partition has several registered over RPC
	waitHandlers := func() error {
		deadline := time.Now().Add(20 * time.Second)
		for {
			ok := true
			for i := range fa.parts {
				if leaderB.Z.VerifQueryHandlers(i) < 4 {
					ok = false
				}
			}
			if ok {
				return nil
			}
			if time.Now().After(deadline) {
				return fmt.Errorf("%w: RPC query handlers did not register", h.ErrInconclusive)
			}
			time.Sleep(500 * time.Microsecond)
		}
	}
	for _, q := range cc.Queries {
		if err := waitHandlers(); err != nil {
			return err
		}
		run := func(pl *h.PlanLeader) qOutcome {
			o := h.QueryOpts{Mem: c.Mem, Timeout: 40 * time.Second}
			if c.Deadline {
				ctx, cancel := context.WithTimeout(context.Background(), 5*time.Minute)
				defer cancel()
				o.Ctx = ctx
			}
			res, err := pl.Query(q.SQL(), o)
			return qOutcome{res, err}
		}
		a := run(fa.leader)
		if a.err != nil && h.IsInconclusive(a.err) {
			return a.err
		}
		var b qOutcome
		for attempt := 0; attempt < 3; attempt++ {
			if err := waitHandlers(); err != nil {
				return err
			}
			b = run(leaderB)
			if b.err != nil && h.IsInconclusive(b.err) {
				return b.err
			}
			// a partition whose RPC handler had not re-registered yet is a fixture
			// matter, not a verdict: retry
			if b.err == nil && b.res.Stats != nil && len(b.res.Stats.MissingPartitions) > 0 {
				time.Sleep(50 * time.Millisecond)
				continue
			}
			// the same for a subquery's own cluster query (reported as an error)
			if b.err != nil && strings.Contains(b.err.Error(), "missing partitions") {
				time.Sleep(50 * time.Millisecond)
				continue
			}
			break
		}
		if b.err != nil && strings.Contains(b.err.Error(), "missing partitions") {
			return fmt.Errorf("%w: RPC handlers missing during a subquery: %v", h.ErrInconclusive, b.err)
		}
		if a.err != nil && strings.Contains(a.err.Error(), "missing partitions") {
			return fmt.Errorf("%w: in-process handlers missing during a subquery: %v", h.ErrInconclusive, a.err)
		}
		if b.err == nil && b.res.Stats != nil && len(b.res.Stats.MissingPartitions) > 0 {
			return fmt.Errorf("%w: RPC handlers missing: %+v", h.ErrInconclusive, b.res.Stats)
		}
		if a.err == nil && a.res.Stats != nil && len(a.res.Stats.MissingPartitions) > 0 {
			return fmt.Errorf("%w: in-process handlers missing: %+v", h.ErrInconclusive, a.res.Stats)
		}
		where := fmt.Sprintf("%s (memstore=%v, data flushed=%v, caller deadline=%v, %d partitions)", q.SQL(), c.Mem, c.Flushed, c.Deadline, cc.N)
		if d := sameOutcome(q, a, b); d != "" {
			return fmt.Errorf("a cluster query answered by followers over RPC differs from the same query answered by the same followers in-process: %s\n%s", where, d)
		}
		if a.err == nil && b.err == nil {
			if d := orderKeysEqual(q, a.res, b.res); d != "" {
				return fmt.Errorf("row order of a cluster query answered over RPC differs from the in-process answer: %s\n%s", where, d)
			}
		}
	}
	return nil
}

func TestC20Cluster(t *testing.T) {
	rec := h.NewRec(t, "TestC20Cluster")
	excluded := 0
	defer func() { rec.Excluded(excluded) }()
	rapid.Check(t, func(rt *rapid.T) {
		c := genC20Cluster(rt, &excluded)
		labels := []string{fmt.Sprintf("rpc-cluster-n%d", c.C.N)}
		if c.Deadline {
			labels = append(labels, "caller-deadline")
		}
		if !c.Flushed && c.Mem {
			labels = append(labels, "memstore-data-over-rpc")
		}
		err := runC20Cluster(&c)
		if outcome(rec, rt, &c, c.C.N >= 2 && len(c.C.Data.Points) >= 2, labels, err) {
			rt.Fatalf("%v", err)
		}
	})
}

func init() {
	register("TestC20Cluster", func(raw json.RawMessage) error {
		var c C20ClusterCase
		if err := json.Unmarshal(raw, &c); err != nil {
			return err
		}
		return runC20Cluster(&c)
	})
}

// orderKeyNaN reports whether some row has NaN in a value that ORDER BY reads.
func orderKeyNaN(q *h.Query, r *h.Result) bool {
	if r == nil {
		return false
	}
	for _, row := range r.Rows {
		for _, k := range q.OrderBy {
			if v, ok := row.Vals[k.Field]; ok && v != v {
				return true
			}
		}
	}
	return false
}
