package checks

import (
	"bytes"
	"context"
	"encoding/json"
	"fmt"
	"net"
	"reflect"
	"testing"
	"time"

	"github.com/getlantern/bytemap"
	"github.com/getlantern/wal"
	"github.com/getlantern/zenodb/common"
	"github.com/getlantern/zenodb/core"
	"github.com/getlantern/zenodb/encoding"
	"github.com/getlantern/zenodb/expr"
	"github.com/getlantern/zenodb/rpc"
	rpcserver "github.com/getlantern/zenodb/rpc/server"

	"verifharness/h"

	"pgregory.net/rapid"
)

// C20CodecCase: a field list (expression trees), updates, and a row.
type C20CodecCase struct {
	Exs  []*h.Ex `json:"exs"`
	Upds []Upd   `json:"upds"`
	Dims []h.KV  `json:"dims"`
	TS   int64   `json:"ts"`
	Sub  []h.Val `json:"sub"`
}

func genC20Codec(t *rapid.T) C20CodecCase {
	c := C20CodecCase{}
	n := rapid.IntRange(1, 4).Draw(t, "nex")
	for i := 0; i < n; i++ {
		c.Exs = append(c.Exs, genTree(t, 3, fmt.Sprintf("e%d", i)))
	}
	// PERCENTILE wrapping an existing PERCENTILE (its own wire type), with
	// precisions on both sides of the 1..5 range in which the histogram's
	// precision and the scaling precision coincide
	if rapid.IntRange(0, 2).Draw(t, "pctopt") == 0 {
		in := &h.Ex{Op: "PCT", F: rapid.SampledFrom(h.ValNames).Draw(t, "po.f"), Pct: float64(rapid.SampledFrom([]int{1, 50, 99}).Draw(t, "po.pct")), Lo: 0, Hi: float64(rapid.SampledFrom([]int{10, 100}).Draw(t, "po.hi")), Prec: rapid.SampledFrom([]int{0, 1, 2, 3, 6}).Draw(t, "po.prec")}
		if in.Prec == 6 {
			in.Hi = 1 // keeps the histogram small
		}
		var e *h.Ex = &h.Ex{Op: "PCTOPT", Pct: float64(rapid.SampledFrom([]int{5, 50, 95}).Draw(t, "po.pct2")), Args: []*h.Ex{in}}
		if rapid.Bool().Draw(t, "po.twice") {
			e = &h.Ex{Op: "PCTOPT", Pct: float64(rapid.SampledFrom([]int{10, 75}).Draw(t, "po.pct3")), Args: []*h.Ex{e}}
		}
		c.Exs = append(c.Exs, e)
	}
	// numeric parameters that do not survive a narrower wire type: fractions
	// that are not float32-representable, integers above 2^24 and 2^31
	odd := []float64{0.1, 0.3, 2.7, 1e-7, 16777217, 3000000001.5}
	for i, e := range c.Exs {
		k := 0
		e.Walk(func(x *h.Ex) {
			k++
			l := fmt.Sprintf("odd%d.%d", i, k)
			switch {
			case x.Bnd || x.Op == "BOUNDEDTOP":
				if rapid.Bool().Draw(t, l) {
					x.Lo += rapid.SampledFrom(odd[:4]).Draw(t, l+".lo")
					x.Hi += rapid.SampledFrom(odd).Draw(t, l+".hi")
				}
			case x.Op == "CONST":
				if rapid.IntRange(0, 2).Draw(t, l) == 0 {
					x.Num += rapid.SampledFrom(odd).Draw(t, l+".num")
				}
			case x.Op == "SHIFT":
				if rapid.Bool().Draw(t, l) {
					x.Off -= int64(rapid.SampledFrom([]int{1, 500000000, 86400}).Draw(t, l+".off"))
				}
			}
		})
	}
	m := rapid.IntRange(0, 6).Draw(t, "nupd")
	for i := 0; i < m; i++ {
		c.Upds = append(c.Upds, genUpd(t, fmt.Sprintf("u%d", i)))
	}
	for _, dn := range append(append([]string(nil), h.DimNames...), h.MixedDim) {
		if rapid.Bool().Draw(t, "hasd."+dn) {
			c.Dims = append(c.Dims, h.KV{N: dn, V: h.DimVal(t, dn, "d."+dn)})
		}
	}
	c.TS = h.BaseTS + int64(rapid.IntRange(0, 100).Draw(t, "ts"))*1e9
	k := rapid.IntRange(0, 4).Draw(t, "nsub")
	for i := 0; i < k; i++ {
		c.Sub = append(c.Sub, h.DimVal(t, rapid.SampledFrom([]string{"da", "db", "dd", "dm"}).Draw(t, fmt.Sprintf("subd%d", i)), fmt.Sprintf("sub%d", i)))
	}
	return c
}

func runC20Codec(c *C20CodecCase) error {
	var fields core.Fields
	for i, ex := range c.Exs {
		e, err := h.BuildExpr(ex)
		if err != nil {
			return fmt.Errorf("%w: %v", errSetup, err)
		}
		if err := e.Validate(); err != nil {
			return fmt.Errorf("%w: %v", errSetup, err)
		}
		fields = append(fields, core.NewField(fmt.Sprintf("f%d", i), e))
	}
	// --- field definitions travel in RemoteQueryResult.Fields
	b, err := rpc.Codec.Marshal(&rpc.RemoteQueryResult{Fields: fields})
	if err != nil {
		return fmt.Errorf("marshal fields: %v", err)
	}
	out := &rpc.RemoteQueryResult{}
	if err := rpc.Codec.Unmarshal(b, out); err != nil {
		return fmt.Errorf("unmarshal fields %v: %v", fields, err)
	}
	if len(out.Fields) != len(fields) {
		return fmt.Errorf("decoded %d fields, sent %d", len(out.Fields), len(fields))
	}
	dimMap := map[string]interface{}{}
	for _, kv := range c.Dims {
		dimMap[kv.N] = kv.V.Go()
	}
	key := bytemap.New(dimMap)
	vals := make(core.Vals, len(fields))
	for i, f := range fields {
		d := out.Fields[i]
		if d.Name != f.Name {
			return fmt.Errorf("field %d name %q decoded as %q", i, f.Name, d.Name)
		}
		if d.Expr.String() != f.Expr.String() {
			return fmt.Errorf("field %s: expression text %q decoded as %q", f.Name, f.Expr.String(), d.Expr.String())
		}
		if d.Expr.EncodedWidth() != f.Expr.EncodedWidth() {
			return fmt.Errorf("field %s (%s): width %d decoded as %d", f.Name, f.Expr, f.Expr.EncodedWidth(), d.Expr.EncodedWidth())
		}
		if d.Expr.Shift() != f.Expr.Shift() || d.Expr.IsConstant() != f.Expr.IsConstant() {
			return fmt.Errorf("field %s (%s): shift/constness changed by the codec", f.Name, f.Expr)
		}
		if (d.Expr.Validate() == nil) != (f.Expr.Validate() == nil) {
			return fmt.Errorf("field %s (%s): validity changed by the codec", f.Name, f.Expr)
		}
		// behaviour: the same updates produce the same state bytes and value,
		// states produced by one side merge correctly on the other
		w := f.Expr.EncodedWidth()
		so, sd := make([]byte, w), make([]byte, w)
		half1o, half2d := make([]byte, w), make([]byte, w)
		for j := range c.Upds {
			c.Upds[j].apply(f.Expr, so)
			c.Upds[j].apply(d.Expr, sd)
			if j%2 == 0 {
				c.Upds[j].apply(f.Expr, half1o)
			} else {
				c.Upds[j].apply(d.Expr, half2d)
			}
		}
		if !bytes.Equal(so, sd) {
			return fmt.Errorf("field %s (%s): the decoded expression accumulates a different state from the same updates", f.Name, f.Expr)
		}
		vo, oko, _ := f.Expr.Get(so)
		vd, okd, _ := d.Expr.Get(so)
		if oko != okd || (oko && !h.FloatEq(vo, vd)) {
			return fmt.Errorf("field %s (%s): Get on the same state: original (%v,%v) decoded (%v,%v)", f.Name, f.Expr, vo, oko, vd, okd)
		}
		mo, md := make([]byte, w), make([]byte, w)
		f.Expr.Merge(mo, half1o, half2d)
		d.Expr.Merge(md, half1o, half2d)
		if !bytes.Equal(mo, md) {
			return fmt.Errorf("field %s (%s): the decoded expression merges two partial states differently", f.Name, f.Expr)
		}
		var subs []h.SubPoint
		for j := range c.Upds {
			subs = append(subs, c.Upds[j].sub())
		}
		wv, wok := h.EvalEx(c.Exs[i], subs, nil)
		gv, gok, _ := d.Expr.Get(md)
		if gok != wok || (gok && !h.FloatEq(gv, wv)) {
			return fmt.Errorf("field %s (%s): merged value through the decoded expression (%v,%v), reference (%v,%v)", f.Name, f.Expr, gv, gok, wv, wok)
		}
		// sub-mergers resolve by expression text on the leader
		smo := f.Expr.SubMergers([]expr.Expr{d.Expr})
		smd := d.Expr.SubMergers([]expr.Expr{f.Expr})
		if (smo[0] == nil) != (smd[0] == nil) {
			return fmt.Errorf("field %s (%s): original and decoded expression do not recognise each other as sub-expressions alike", f.Name, f.Expr)
		}
		seq := encoding.NewSequence(w, 1)
		seq.SetUntil(time.Unix(0, c.TS))
		copy(seq[encoding.Width64bits:], so)
		vals[i] = seq
	}
	// --- raw series rows
	b, err = rpc.Codec.Marshal(&rpc.RemoteQueryResult{Key: key, Vals: vals})
	if err != nil {
		return fmt.Errorf("marshal row: %v", err)
	}
	row := &rpc.RemoteQueryResult{}
	if err := rpc.Codec.Unmarshal(b, row); err != nil {
		return fmt.Errorf("unmarshal row: %v", err)
	}
	if !bytes.Equal(row.Key, key) {
		return fmt.Errorf("row key changed by the codec: %v -> %v", key.AsMap(), row.Key.AsMap())
	}
	if len(row.Vals) != len(vals) {
		return fmt.Errorf("row has %d series, sent %d", len(row.Vals), len(vals))
	}
	for i := range vals {
		if !bytes.Equal(row.Vals[i], vals[i]) {
			return fmt.Errorf("series %d changed by the codec", i)
		}
	}
	// --- flat rows
	fr := &core.FlatRow{TS: c.TS, Key: key, Values: []float64{1.5, 0, -2, 1e300}}
	b, err = rpc.Codec.Marshal(&rpc.RemoteQueryResult{Row: fr})
	if err != nil {
		return fmt.Errorf("marshal flat row: %v", err)
	}
	frow := &rpc.RemoteQueryResult{}
	if err := rpc.Codec.Unmarshal(b, frow); err != nil {
		return fmt.Errorf("unmarshal flat row: %v", err)
	}
	if frow.Row == nil || frow.Row.TS != fr.TS || !bytes.Equal(frow.Row.Key, fr.Key) || !reflect.DeepEqual(frow.Row.Values, fr.Values) {
		return fmt.Errorf("flat row changed by the codec: %+v -> %+v", fr, frow.Row)
	}
	// --- query message with subquery results
	var sub []interface{}
	for _, v := range c.Sub {
		sub = append(sub, v.Go())
	}
	q := &rpc.Query{SQLString: "SELECT * FROM ta", IsSubQuery: true, SubQueryResults: [][]interface{}{sub}, IncludeMemStore: true, Unflat: true, HasDeadline: true, Deadline: time.Unix(0, c.TS).UTC()}
	b, err = rpc.Codec.Marshal(q)
	if err != nil {
		return fmt.Errorf("marshal query: %v", err)
	}
	q2 := &rpc.Query{}
	if err := rpc.Codec.Unmarshal(b, q2); err != nil {
		return fmt.Errorf("unmarshal query: %v", err)
	}
	if q2.SQLString != q.SQLString || q2.IsSubQuery != q.IsSubQuery || q2.IncludeMemStore != q.IncludeMemStore || q2.Unflat != q.Unflat || q2.HasDeadline != q.HasDeadline || !q2.Deadline.Equal(q.Deadline) {
		return fmt.Errorf("query message changed by the codec: %+v -> %+v", q, q2)
	}
	if len(q2.SubQueryResults) != 1 || len(q2.SubQueryResults[0]) != len(sub) {
		return fmt.Errorf("subquery results changed shape: %v -> %v", q.SubQueryResults, q2.SubQueryResults)
	}
	for i := range sub {
		if h.CanonGo(q2.SubQueryResults[0][i]) != h.CanonGo(sub[i]) {
			// a numeric type may widen as long as the value compares equal to the
			// dimension value it came from
			if fmt.Sprint(q2.SubQueryResults[0][i]) != fmt.Sprint(sub[i]) {
				return fmt.Errorf("subquery result %d changed by the codec: %#v -> %#v", i, sub[i], q2.SubQueryResults[0][i])
			}
		}
	}
	// --- follow request
	fo := &common.Follow{FollowerID: common.FollowerID{Partition: 2, ID: 3}, Stream: "inbound", EarliestOffset: wal.NewOffset(c.TS, 77),
		Partitions: map[string]*common.Partition{"da|db": {Keys: []string{"da", "db"}, Tables: []*common.PartitionTable{{Name: "ta", Offsets: common.OffsetsBySource{1: wal.NewOffset(5, 6), 2: wal.NewOffset(7, 8)}}}}}}
	b, err = rpc.Codec.Marshal(fo)
	if err != nil {
		return fmt.Errorf("marshal follow: %v", err)
	}
	fo2 := &common.Follow{}
	if err := rpc.Codec.Unmarshal(b, fo2); err != nil {
		return fmt.Errorf("unmarshal follow: %v", err)
	}
	if !reflect.DeepEqual(fo, fo2) {
		return fmt.Errorf("follow request changed by the codec: %+v -> %+v", fo, fo2)
	}
	return nil
}

func TestC20Codec(t *testing.T) {
	rec := h.NewRec(t, "TestC20Codec")
	rapid.Check(t, func(rt *rapid.T) {
		c := genC20Codec(rt)
		d := 0
		for _, e := range c.Exs {
			if x := exDepth(e); x > d {
				d = x
			}
		}
		labels := []string{fmt.Sprintf("depth-%d", d)}
		err := runC20Codec(&c)
		if outcome(rec, rt, &c, d >= 2 && len(c.Upds) >= 2, labels, err) {
			rt.Fatalf("%v", err)
		}
	})
}

// C20RPCCase: a dataset served by an RPC server; points optionally inserted
// over RPC; queries answered over RPC and embedded.
type C20RPCCase struct {
	Data      DataCase   `json:"data"`
	InsertRPC bool       `json:"insert_rpc"`
	Queries   []*h.Query `json:"queries"`
	Mem       bool       `json:"mem"`
}

func genC20RPC(t *rapid.T) C20RPCCase {
	cfg := &h.GenCfg{MaxPoints: 25, MaxPeriods: 6, MaxTables: 1, MaxFields: 4, AllowWhere: true, AllowPct: true, AllowIf: true, AllowMixed: true}
	c := C20RPCCase{Data: genData(t, cfg)}
	c.InsertRPC = rapid.Bool().Draw(t, "insertrpc")
	c.Mem = rapid.IntRange(0, 3).Draw(t, "mem") > 0
	nq := rapid.IntRange(1, 3).Draw(t, "nq")
	for i := 0; i < nq; i++ {
		c.Queries = append(c.Queries, h.GenQuery(t, h.FullQ(cfg.MaxPeriods), &c.Data.Schema, "ta", fmt.Sprintf("q%d", i)))
	}
	return c
}

func runC20RPC(c *C20RPCCase) error {
	now := maxTS(c.Data.Points)
	l, err := net.Listen("tcp", "127.0.0.1:0")
	if err != nil {
		return fmt.Errorf("%w: listen: %v", errSetup, err)
	}
	defer l.Close()
	dir := h.ScratchDir("c20")
	defer removeAll(dir)
	db, err := h.OpenDB(dir, &c.Data.Schema, h.DBConf{}, nil)
	if err != nil {
		return fmt.Errorf("%w: open: %v", errSetup, err)
	}
	defer db.Close()
	serve, stop := rpcserver.PrepareServer(db.Z, l, &rpcserver.Opts{ID: 1})
	go serve()
	defer stop()
	client, err := rpc.Dial(l.Addr().String(), &rpc.ClientOpts{Dialer: func(addr string, timeout time.Duration) (net.Conn, error) {
		return net.DialTimeout("tcp", addr, timeout)
	}})
	if err != nil {
		return fmt.Errorf("%w: dial: %v", errSetup, err)
	}
	defer client.Close()
	ctx, cancel := context.WithTimeout(context.Background(), h.QuiesceTimeout)
	defer cancel()
	// the RPC insert endpoint refuses points without dims or without values
	// (documented in its report), so those go in directly
	var expectPoints []h.Point
	if c.InsertRPC {
		ins, err := client.NewInserter(ctx, "inbound")
		if err != nil {
			return fmt.Errorf("%w: inserter: %v", errSetup, err)
		}
		sent := 0
		for _, p := range c.Data.Points {
			if len(p.Dims) == 0 || len(p.Vals) == 0 {
				continue
			}
			p := p
			if err := ins.Insert(p.Time(), p.DimMap(), func(cb func(string, interface{})) {
				for _, kv := range p.Vals {
					cb(kv.N, kv.V.Go())
				}
			}); err != nil {
				return fmt.Errorf("rpc insert failed: %v", err)
			}
			expectPoints = append(expectPoints, p)
			sent++
		}
		report, err := ins.Close()
		if err != nil {
			return fmt.Errorf("closing rpc inserter: %v", err)
		}
		if report.Received != sent || report.Succeeded != sent {
			return fmt.Errorf("rpc insert report %+v, sent %d valid points", report, sent)
		}
		if err := db.Quiesce(); err != nil {
			return err
		}
	} else {
		if err := c.Data.load(db); err != nil {
			return err
		}
		expectPoints = c.Data.Points
	}
	db.Z.VerifAdvanceClock(time.Unix(0, now))
	if c.InsertRPC {
		// points inserted over RPC are aggregated like points inserted in-process
		want := expectedRows(&c.Data.Schema, expectPoints, false)
		res, err := db.Query("SELECT * FROM ta", h.QueryOpts{Mem: true})
		if err != nil {
			return fmt.Errorf("SELECT * FROM ta: %v", err)
		}
		if d := h.DiffRows(want["ta"], res.Rows, nil); d != "" {
			return fmt.Errorf("points inserted over RPC are stored differently from the reference:\n%s", d)
		}
	}
	if !c.Mem {
		// a disk-only result depends on what has been flushed so far (after the
		// first flush zenodb re-arms its timer to a few ms): flush everything so
		// both executions see the same file store
		db.Flush()
	}
	for _, q := range c.Queries {
		emb, eerr := db.Query(q.SQL(), h.QueryOpts{Mem: c.Mem})
		if eerr != nil && h.IsInconclusive(eerr) {
			return eerr
		}
		md, iterate, rerr := client.Query(ctx, q.SQL(), c.Mem)
		var got *h.Result
		if rerr == nil {
			got = &h.Result{Fields: md.FieldNames}
			_, rerr = iterate(func(row *core.FlatRow) (bool, error) {
				r := h.RefRow{TS: row.TS, Key: h.CanonKey(row.Key), Vals: map[string]float64{}, KeyMap: row.Key.AsMap()}
				for j, v := range row.Values {
					if j < len(md.FieldNames) {
						r.Vals[md.FieldNames[j]] = v
					}
				}
				got.Rows = append(got.Rows, r)
				return true, nil
			})
		}
		if d := sameOutcome(q, qOutcome{emb, eerr}, qOutcome{got, rerr}); d != "" {
			return fmt.Errorf("query over RPC differs from the embedded query: %s\n%s", q.SQL(), d)
		}
		if eerr == nil && rerr == nil {
			if md.Resolution != time.Duration(emb.Res) || md.AsOf.UnixNano() != emb.AsOf || md.Until.UnixNano() != emb.Until {
				return fmt.Errorf("query metadata over RPC (asOf %v until %v resolution %v) differs from embedded (asOf %d until %d resolution %d): %s", md.AsOf, md.Until, md.Resolution, emb.AsOf, emb.Until, emb.Res, q.SQL())
			}
		}
	}
	return nil
}

func TestC20RPC(t *testing.T) {
	rec := h.NewRec(t, "TestC20RPC")
	rapid.Check(t, func(rt *rapid.T) {
		c := genC20RPC(rt)
		labels := c.Data.splitLabels()
		if c.InsertRPC {
			labels = append(labels, "insert-over-rpc")
		}
		err := runC20RPC(&c)
		if outcome(rec, rt, &c, len(c.Data.Points) >= 2, labels, err) {
			rt.Fatalf("%v", err)
		}
	})
}

func init() {
	register("TestC20Codec", func(raw json.RawMessage) error {
		var c C20CodecCase
		if err := json.Unmarshal(raw, &c); err != nil {
			return err
		}
		return runC20Codec(&c)
	})
	register("TestC20RPC", func(raw json.RawMessage) error {
		var c C20RPCCase
		if err := json.Unmarshal(raw, &c); err != nil {
			return err
		}
		return runC20RPC(&c)
	})
}
