package checks

import (
	"verifharness/h"
)

func pt(ts int64, dims []h.KV, vals []h.KV) *h.Point { return &h.Point{TS: ts, Dims: dims, Vals: vals} }

// probe runs a fixed case of a listed finding. If it still fails and the
// finding is listed in KNOWN_FINDINGS.txt, a KNOWN-FINDING line is printed;
// if it fails and is not listed, it is an ordinary violation.
func probe(rec *h.Rec, test string, sig string, what string, c interface{}, run func() error) {
	var err error
	for attempt := 0; attempt < 2; attempt++ {
		err = run()
		if err == nil || !h.IsInconclusive(err) {
			break
		}
	}
	if err == nil || h.IsInconclusive(err) {
		return
	}
	if rec.KnownSigs[sig] {
		rec.Known(sig, what)
		return
	}
	rec.FailKeep(test, c, "probe "+sig+": "+err.Error(), "")
}

func simpleTable(name string, fields []h.FieldDef, groupBy []string) h.TableDef {
	return h.TableDef{Name: name, Stream: "inbound", Fields: fields, GroupBy: groupBy, GroupAll: len(groupBy) == 0, ResNS: 1e9, RetNS: 600e9}
}

// probesC01 runs the fixed probes of the findings listed for C01.
func probesC01(rec *h.Rec) {
	// 1. a binary expression with a constant operand counts as "set" in every
	// period of a key's stored range: gap periods come back as rows with
	// _points = 0
	c1 := C01Case{
		Schema: h.Schema{Tables: []h.TableDef{simpleTable("ta", []h.FieldDef{{Name: "fa", Ex: &h.Ex{Op: "*", Args: []*h.Ex{{Op: "SUM", F: "va"}, {Op: "CONST", Num: 2}}}}}, []string{"da"})}},
		Ops: []Op{
			{K: "ins", P: pt(h.BaseTS, []h.KV{{N: "da", V: h.StrV("x")}}, []h.KV{{N: "va", V: h.IntV(1)}})},
			{K: "ins", P: pt(h.BaseTS+3e9, []h.KV{{N: "da", V: h.StrV("x")}}, []h.KV{{N: "va", V: h.IntV(1)}})},
		},
	}
	probe(rec, "TestC01", "const-operand-gap-rows", "field with a constant operand (SUM(va) * 2): periods between two points of one key that received no point are returned as rows with _points=0 (2 points 3 periods apart give 4 rows)", c1, func() error { return runC01(&c1) })

	// 2. bytemap.Get matches a key by prefix: grouping by dimension "a" picks
	// up the value of dimension "ab"
	c2 := C01Case{
		Schema: h.Schema{Tables: []h.TableDef{simpleTable("ta", []h.FieldDef{{Name: "fa", Ex: &h.Ex{Op: "SUM", F: "va"}}}, []string{"a"})}},
		Ops: []Op{
			{K: "ins", P: pt(h.BaseTS, []h.KV{{N: "ab", V: h.IntV(1)}}, []h.KV{{N: "va", V: h.IntV(1)}})},
		},
	}
	probe(rec, "TestC01", "bytemap-prefix-match", "dimension lookup matches by prefix (dependency bytemap.Get): a point with dims {ab:1} lands in group a=1 of a table grouped by a", c2, func() error { return runC01(&c2) })

	// 3. an array sample of n values is stored as 2n-1 sub-points
	c3 := C01Case{
		Schema: h.Schema{Tables: []h.TableDef{simpleTable("ta", []h.FieldDef{{Name: "fa", Ex: &h.Ex{Op: "SUM", F: "va"}}}, []string{"da"})}},
		Ops: []Op{
			{K: "ins", P: pt(h.BaseTS, []h.KV{{N: "da", V: h.StrV("x")}}, []h.KV{{N: "va", V: h.Val{K: "floats", L: []float64{1, 1, 1}}}})},
		},
	}
	probe(rec, "TestC01", "array-sample-2n-1", "array-valued sample [1,1,1] is stored as 5 sub-points (_points=5, SUM=5) instead of 3; TestSingleDB pins this with _points: 202", c3, func() error { return runC01Arrays(&c3) })
}

// runC01Arrays is runC01 with array samples interpreted as n sub-points
// (what "aggregate over the points" means for an array of n samples).
func runC01Arrays(c *C01Case) error {
	d := *c
	d.Ops = nil
	for _, op := range c.Ops {
		if op.K != "ins" {
			d.Ops = append(d.Ops, op)
			continue
		}
		d.Ops = append(d.Ops, op)
	}
	return runC01With(&d, func(p h.Point) []h.SubPoint {
		var out []h.SubPoint
		dims := map[string]h.Val{}
		for _, kv := range p.Dims {
			dims[kv.N] = kv.V
		}
		main := map[string]float64{}
		for _, kv := range p.Vals {
			if kv.V.K == "floats" || kv.V.K == "ints" {
				for i, x := range kv.V.L {
					if i == 0 {
						main[kv.N] = x
					} else {
						out = append(out, h.SubPoint{TS: p.TS, Dims: dims, Vals: map[string]float64{kv.N: x}})
					}
				}
			}
		}
		return append([]h.SubPoint{{TS: p.TS, Dims: dims, Vals: main}}, out...)
	})
}
