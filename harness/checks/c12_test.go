package checks

import (
	"encoding/json"
	"fmt"
	"io"
	"os"
	"path/filepath"
	"strings"
	"testing"

	"verifharness/h"

	"pgregory.net/rapid"
)

// C12: replication is exactly-once per partition across restarts and
// reconnects. A generated history interleaves inserts (through generated
// leaders) with faults on an in-process cluster with real WAL replication
// (DBOpts.Follow / DB.Follow wired by harness links that implement the
// reconnect contract of server.go); after healing, the cluster must account
// for every accepted point exactly once per partition, redundant followers
// must agree, and leader queries must equal a standalone database.

type C12Op struct {
	K      string   `json:"k"` // ins | barrier | flush | stop | start | snap | restore | leader | cut | uncut | delay
	P      *h.Point `json:"p,omitempty"`
	Leader int      `json:"leader,omitempty"`
	F      int      `json:"f,omitempty"` // follower index
	US     int      `json:"us,omitempty"`
	Table  string   `json:"table,omitempty"` // flush: only this table ("" = all tables)
}

type C12Case struct {
	Data    DataCase      `json:"data"` // schema only + the points are in Ops
	Conf    h.ClusterConf `json:"conf"`
	Ops     []C12Op       `json:"ops"`
	Queries []*h.Query    `json:"queries"`
	// NoTimer pins MinFlushLatency to 1h: after a forced flush zenodb re-arms a
	// table's flush timer to ten times the flush duration, which otherwise
	// flushes the other tables a few ms later and equalises their offsets
	NoTimer bool `json:"no_timer,omitempty"`
}

func genC12(t *rapid.T, excluded *int) C12Case {
	cfg := c10Cfg()
	c := C12Case{}
	c.Data.Schema = genClusterSchema(t, cfg, excluded)
	c.Conf = h.ClusterConf{Partitions: rapid.IntRange(2, 3).Draw(t, "partitions"), Leaders: rapid.IntRange(1, 2).Draw(t, "leaders"), FollowersPer: rapid.IntRange(1, 2).Draw(t, "followers")}
	c.NoTimer = rapid.IntRange(0, 2).Draw(t, "notimer") > 0
	if c.NoTimer {
		for i := range c.Data.Schema.Tables {
			c.Data.Schema.Tables[i].MinFlushNS = int64(3600e9)
		}
	}
	nf := c.Conf.Partitions * c.Conf.FollowersPer
	maxFaults := 6
	maxOps := 40
	if h.Thorough() {
		maxFaults, maxOps = 12, 80
	}
	n := rapid.IntRange(4, maxOps).Draw(t, "nops")
	faults := 0
	down := map[int]bool{}
	hasSnap := map[int]bool{}
	for i := 0; i < n; i++ {
		label := fmt.Sprintf("op%d", i)
		k := rapid.IntRange(0, 19).Draw(t, label)
		f := rapid.IntRange(0, nf-1).Draw(t, label+".f")
		l := rapid.IntRange(0, c.Conf.Leaders-1).Draw(t, label+".l")
		switch {
		case k <= 9 || faults >= maxFaults:
			p := h.GenPoint(t, cfg, &c.Data.Schema, cfg.MaxPeriods, label)
			c.Ops = append(c.Ops, C12Op{K: "ins", P: &p, Leader: l})
		case k == 10:
			c.Ops = append(c.Ops, C12Op{K: "barrier"})
		case k == 11:
			if !down[f] {
				op := C12Op{K: "flush", F: f}
				if rapid.Bool().Draw(t, label+".onetable") {
					op.Table = c.Data.Schema.Tables[rapid.IntRange(0, len(c.Data.Schema.Tables)-1).Draw(t, label+".tbl")].Name
				}
				c.Ops = append(c.Ops, op)
			}
		case k == 12:
			if down[f] {
				c.Ops = append(c.Ops, C12Op{K: "start", F: f})
				down[f] = false
			} else {
				c.Ops = append(c.Ops, C12Op{K: "stop", F: f})
				down[f] = true
				faults++
			}
		case k == 13:
			if !down[f] {
				// clean restart in one step
				c.Ops = append(c.Ops, C12Op{K: "stop", F: f}, C12Op{K: "start", F: f})
				faults++
			}
		case k == 14:
			if !down[f] {
				c.Ops = append(c.Ops, C12Op{K: "snap", F: f})
				hasSnap[f] = true
			}
		case k == 15:
			if hasSnap[f] && !down[f] {
				c.Ops = append(c.Ops, C12Op{K: "restore", F: f})
				faults++
			}
		case k == 16:
			c.Ops = append(c.Ops, C12Op{K: "leader", Leader: l})
			faults++
		case k == 17:
			c.Ops = append(c.Ops, C12Op{K: "cut", F: f, Leader: l})
			faults++
		case k == 18:
			c.Ops = append(c.Ops, C12Op{K: "uncut", F: f, Leader: l})
		default:
			c.Ops = append(c.Ops, C12Op{K: "delay", F: f, US: rapid.SampledFrom([]int{0, 200, 2000}).Draw(t, label+".us")})
		}
	}
	// A fault that only matters when the tables of one stream sit at different
	// persisted offsets needs several steps in the right order; a third of the
	// cases with two tables and pinned timers append such a sequence (with
	// generated lengths, follower and table) to whatever was drawn above.
	if len(c.Data.Schema.Tables) >= 2 && c.NoTimer && rapid.IntRange(0, 2).Draw(t, "stagger") == 0 {
		f := rapid.IntRange(0, nf-1).Draw(t, "stagger.f")
		tbl := c.Data.Schema.Tables[rapid.IntRange(0, 1).Draw(t, "stagger.tbl")].Name
		burst := func(label string) {
			k := rapid.IntRange(1, 5).Draw(t, label+".n")
			for j := 0; j < k; j++ {
				p := h.GenPoint(t, cfg, &c.Data.Schema, cfg.MaxPeriods, fmt.Sprintf("%s.p%d", label, j))
				c.Ops = append(c.Ops, C12Op{K: "ins", P: &p, Leader: rapid.IntRange(0, c.Conf.Leaders-1).Draw(t, fmt.Sprintf("%s.l%d", label, j))})
			}
		}
		if down[f] {
			c.Ops = append(c.Ops, C12Op{K: "start", F: f})
			down[f] = false
		}
		burst("stagger.a")
		c.Ops = append(c.Ops, C12Op{K: "barrier"}, C12Op{K: "flush", F: f})
		burst("stagger.b")
		c.Ops = append(c.Ops, C12Op{K: "barrier"}, C12Op{K: "flush", F: f, Table: tbl})
		if rapid.Bool().Draw(t, "stagger.img") {
			c.Ops = append(c.Ops, C12Op{K: "snap", F: f})
			burst("stagger.c")
			c.Ops = append(c.Ops, C12Op{K: "restore", F: f})
		} else {
			// an unclean stop is not available in-process; cut, keep inserting, restore
			c.Ops = append(c.Ops, C12Op{K: "cut", F: f, Leader: 0})
			burst("stagger.c")
			c.Ops = append(c.Ops, C12Op{K: "snap", F: f}, C12Op{K: "restore", F: f}, C12Op{K: "uncut", F: f, Leader: 0})
		}
		burst("stagger.d")
	}
	// Persisted positions come in two forms: the header of a data file and the
	// separate offset file that a flush writes when it has positions to record
	// but no rows (a follower sees many entries of other partitions). A third of
	// the cases append the sequence that makes both exist and then restarts.
	if rapid.IntRange(0, 2).Draw(t, "offsetfile") == 0 {
		f := rapid.IntRange(0, nf-1).Draw(t, "offsetfile.f")
		burst := func(label string, lo, hi int) {
			k := rapid.IntRange(lo, hi).Draw(t, label+".n")
			for j := 0; j < k; j++ {
				p := h.GenPoint(t, cfg, &c.Data.Schema, cfg.MaxPeriods, fmt.Sprintf("%s.p%d", label, j))
				c.Ops = append(c.Ops, C12Op{K: "ins", P: &p, Leader: rapid.IntRange(0, c.Conf.Leaders-1).Draw(t, fmt.Sprintf("%s.l%d", label, j))})
			}
		}
		if down[f] {
			c.Ops = append(c.Ops, C12Op{K: "start", F: f})
			down[f] = false
		}
		// flush everything there is, then entries that mostly concern other
		// partitions / rejected points, then a flush with little or nothing to write
		c.Ops = append(c.Ops, C12Op{K: "barrier"}, C12Op{K: "flush", F: f})
		burst("offsetfile.a", 1, 3)
		c.Ops = append(c.Ops, C12Op{K: "barrier"}, C12Op{K: "flush", F: f})
		burst("offsetfile.b", 3, 8)
		c.Ops = append(c.Ops, C12Op{K: "barrier"}, C12Op{K: "flush", F: f}, C12Op{K: "stop", F: f}, C12Op{K: "start", F: f})
		burst("offsetfile.c", 1, 4)
	}
	nq := rapid.IntRange(1, 2).Draw(t, "nq")
	for i := 0; i < nq; i++ {
		tbl := c.Data.Schema.Tables[rapid.IntRange(0, len(c.Data.Schema.Tables)-1).Draw(t, fmt.Sprintf("qt%d", i))].Name
		q := h.GenQuery(t, h.FullQ(cfg.MaxPeriods), &c.Data.Schema, tbl, fmt.Sprintf("q%d", i))
		stripTextualKeywords(q, excluded)
		c.Queries = append(c.Queries, q)
	}
	return c
}

func copyDir(src, dst string) error {
	os.RemoveAll(dst)
	return filepath.Walk(src, func(path string, info os.FileInfo, err error) error {
		if err != nil {
			return err
		}
		rel, _ := filepath.Rel(src, path)
		target := filepath.Join(dst, rel)
		if info.IsDir() {
			return os.MkdirAll(target, 0755)
		}
		in, err := os.Open(path)
		if err != nil {
			return err
		}
		defer in.Close()
		out, err := os.Create(target)
		if err != nil {
			return err
		}
		defer out.Close()
		_, err = io.Copy(out, in)
		return err
	})
}

func (c *C12Case) points() []h.Point {
	var out []h.Point
	for _, op := range c.Ops {
		if op.K == "ins" {
			out = append(out, *op.P)
		}
	}
	return out
}

func runC12(c *C12Case) ([]string, error) {
	labels := map[string]bool{}
	pts := c.points()
	now := maxTS(pts)
	var local []qOutcome
	tables := map[string]*h.Result{}
	d := DataCase{Schema: c.Data.Schema, Points: pts}
	if err := withClock(&d, "c12s", pts, now, func(db *h.DB) error {
		var err error
		if local, err = runQueries(db, c.Queries, true); err != nil {
			return err
		}
		for _, tb := range c.Data.Schema.Tables {
			res, err := db.Query("SELECT * FROM "+tb.Name, h.QueryOpts{Mem: true})
			if err != nil {
				return fmt.Errorf("%w: standalone SELECT *: %v", errSetup, err)
			}
			tables[tb.Name] = res
		}
		return nil
	}); err != nil {
		return nil, err
	}
	root := h.ScratchDir("c12c")
	defer removeAll(root)
	cl, err := h.OpenCluster(root, &c.Data.Schema, c.Conf)
	if err != nil {
		if h.IsInconclusive(err) {
			return nil, err
		}
		return nil, fmt.Errorf("%w: open cluster: %v", errSetup, err)
	}
	defer cl.Close()
	images := map[int]string{}
	insertedSinceFault := false
	faultSeen := false
	restart := func(f *h.Node) error {
		if err := cl.StartFollower(f); err != nil {
			if h.IsInconclusive(err) {
				return err
			}
			return fmt.Errorf("follower %d.%d cannot be restarted on its directory: %v", f.Partition, f.ID, err)
		}
		return nil
	}
	for i, op := range c.Ops {
		var f *h.Node
		if op.F < len(cl.Followers) {
			f = cl.Followers[op.F]
		}
		switch op.K {
		case "ins":
			if err := cl.Insert(op.Leader, "inbound", *op.P); err != nil {
				return sortedLabels(labels), fmt.Errorf("leader insert: %v", err)
			}
			if faultSeen {
				insertedSinceFault = true
			}
		case "barrier":
			if err := cl.Quiesce(); err != nil {
				return sortedLabels(labels), err
			}
		case "flush":
			if f.Up() {
				if op.Table != "" {
					f.Z.VerifFlushTable(op.Table)
					labels["follower-flush-one-table"] = true
				} else {
					f.Z.FlushAll()
				}
				labels["follower-flush"] = true
			}
		case "stop":
			if f.Up() {
				cl.StopFollower(f)
				faultSeen = true
				labels["follower-stop"] = true
			}
		case "start":
			if !f.Up() {
				if err := restart(f); err != nil {
					return sortedLabels(labels), err
				}
			}
		case "snap":
			// image of the follower's directory as a crash would leave it (what is
			// only in the memstore is lost, tables may sit at different offsets).
			// With the adaptive flush timer pinned (NoTimer) a frozen follower has no
			// writer, so its directory can be copied while it is up. Otherwise the
			// follower is stopped for the copy (Close flushes: a clean image).
			if f.Up() {
				img := filepath.Join(root, fmt.Sprintf("image%d", op.F))
				if c.NoTimer {
					prev, err := cl.FreezeFollower(f)
					if err != nil {
						return sortedLabels(labels), err
					}
					var cerr error
					for attempt := 0; attempt < 3; attempt++ {
						if cerr = copyDir(f.Dir, img); cerr == nil {
							break
						}
					}
					cl.Thaw(f, prev)
					if cerr != nil {
						return sortedLabels(labels), fmt.Errorf("%w: copy: %v", errSetup, cerr)
					}
					labels["crash-image-taken"] = true
				} else {
					cl.StopFollower(f)
					if err := copyDir(f.Dir, img); err != nil {
						return sortedLabels(labels), fmt.Errorf("%w: copy: %v", errSetup, err)
					}
					if err := restart(f); err != nil {
						return sortedLabels(labels), err
					}
					labels["clean-image-taken"] = true
				}
				images[op.F] = img
				faultSeen = true
			}
		case "restore":
			if img, ok := images[op.F]; ok && f.Up() {
				cl.StopFollower(f)
				if err := copyDir(img, f.Dir); err != nil {
					return sortedLabels(labels), fmt.Errorf("%w: restore: %v", errSetup, err)
				}
				if err := restart(f); err != nil {
					return sortedLabels(labels), err
				}
				faultSeen = true
				labels["follower-restored-from-image"] = true
			}
		case "leader":
			if err := cl.RestartLeader(cl.Leaders[op.Leader]); err != nil {
				if h.IsInconclusive(err) {
					// DB.Close of the old incarnation did not return (shutdown liveness,
					// not a C12 subject): no verdict
					return sortedLabels(labels), err
				}
				return sortedLabels(labels), fmt.Errorf("leader %d cannot be restarted on its directory: %v", op.Leader+1, err)
			}
			faultSeen = true
			labels["leader-restart"] = true
		case "cut":
			cl.Cut(f, cl.Leaders[op.Leader].ID, true)
			faultSeen = true
			labels["link-cut"] = true
		case "uncut":
			cl.Cut(f, cl.Leaders[op.Leader].ID, false)
		case "delay":
			cl.Delay(f, int64(op.US))
			if op.US > 0 {
				labels["slow-follower"] = true
			}
		}
		_ = i
	}
	// heal: all links restored, all followers up, nobody slow
	for _, f := range cl.Followers {
		for _, l := range cl.Leaders {
			cl.Cut(f, l.ID, false)
		}
		cl.Delay(f, 0)
		if !f.Up() {
			if err := restart(f); err != nil {
				return sortedLabels(labels), err
			}
		}
	}
	if err := cl.Quiesce(); err != nil {
		if h.IsInconclusive(err) {
			// C12: the healed cluster must catch up; decide by a second bounded wait
			if err2 := cl.Quiesce(); err2 != nil {
				if h.IsInconclusive(err2) {
					return sortedLabels(labels), err2
				}
				return sortedLabels(labels), err2
			}
		} else {
			return sortedLabels(labels), err
		}
	}
	if insertedSinceFault {
		labels["insert-after-fault"] = true
	}
	cl.AdvanceClocks(now)
	if err := clusterAccounting(cl, &c.Data.Schema, tables); err != nil {
		return sortedLabels(labels), fmt.Errorf("after healing: %v", err)
	}
	for i, q := range c.Queries {
		res, err := cl.QueryLeader(i%c.Conf.Leaders, q.SQL(), h.QueryOpts{Mem: true})
		if err != nil && h.IsInconclusive(err) {
			return sortedLabels(labels), err
		}
		if err != nil && strings.Contains(err.Error(), "missing partitions") {
			return sortedLabels(labels), fmt.Errorf("%w: %v", h.ErrInconclusive, err)
		}
		if err == nil && res.Stats != nil && (res.Stats.NumSuccessfulPartitions != c.Conf.Partitions || len(res.Stats.MissingPartitions) > 0) {
			return sortedLabels(labels), fmt.Errorf("%w: partitions not all successful: %+v", h.ErrInconclusive, res.Stats)
		}
		if d := sameOutcome(q, local[i], qOutcome{res, err}); d != "" {
			return sortedLabels(labels), fmt.Errorf("after healing, cluster %+v disagrees with the standalone database on\n%s\n%s", c.Conf, q.SQL(), d)
		}
	}
	return sortedLabels(labels), nil
}

func TestC12(t *testing.T) {
	rec := h.NewRec(t, "TestC12")
	excluded := 0
	defer func() { rec.Excluded(excluded) }()
	rapid.Check(t, func(rt *rapid.T) {
		c := genC12(rt, &excluded)
		labels, err := runC12(&c)
		labels = append(labels, fmt.Sprintf("leaders-%d", c.Conf.Leaders), fmt.Sprintf("followers-per-%d", c.Conf.FollowersPer))
		nt := has(labels, "insert-after-fault") && (has(labels, "follower-stop") || has(labels, "follower-restored-from-image") || has(labels, "leader-restart") || has(labels, "link-cut"))
		if outcome(rec, rt, &c, nt, labels, err) {
			rt.Fatalf("%v", err)
		}
	})
}

func init() {
	register("TestC12", func(raw json.RawMessage) error {
		var c C12Case
		if err := json.Unmarshal(raw, &c); err != nil {
			return err
		}
		_, err := runC12(&c)
		return err
	})
}
