package checks

import (
	"bytes"
	"encoding/json"
	"fmt"
	"testing"

	"github.com/getlantern/bytemap"
	"github.com/getlantern/zenodb/expr"

	"verifharness/h"

	"pgregory.net/rapid"
)

// Upd is one update applied to an accumulator state.
type Upd struct {
	Vals []h.KV `json:"v,omitempty"`
	Dims []h.KV `json:"d,omitempty"`
}

// C05ExprCase: an expression, a multiset of updates and a split in 2-3 parts.
type C05ExprCase struct {
	Ex    *h.Ex `json:"ex"`
	Upds  []Upd `json:"upds"`
	Parts []int `json:"parts"` // part index (0..2) per update
}

func genTree(t *rapid.T, depth int, label string) *h.Ex {
	cfg := &h.GenCfg{AllowPct: true, AllowIf: true}
	kind := 0
	if depth > 0 {
		kind = rapid.IntRange(0, 11).Draw(t, label+".k")
	}
	switch {
	case kind <= 3:
		return h.GenAgg(t, cfg, label)
	case kind <= 6:
		op := rapid.SampledFrom(h.GenTreeOps()).Draw(t, label+".op")
		l := genTree(t, depth-1, label+".l")
		var r *h.Ex
		if rapid.IntRange(0, 3).Draw(t, label+".c") == 0 {
			r = &h.Ex{Op: "CONST", Num: float64(rapid.IntRange(-2, 4).Draw(t, label+".n"))}
		} else {
			r = genTree(t, depth-1, label+".r")
		}
		if rapid.Bool().Draw(t, label+".swap") {
			l, r = r, l
		}
		return &h.Ex{Op: op, Args: []*h.Ex{l, r}}
	case kind == 7:
		return &h.Ex{Op: "IF", Cond: h.GenPred(t, 1, label+".cond"), Args: []*h.Ex{genTree(t, depth-1, label+".then")}}
	case kind == 8:
		return &h.Ex{Op: rapid.SampledFrom([]string{"LN", "LOG2", "LOG10"}).Draw(t, label+".m"), Args: []*h.Ex{genTree(t, depth-1, label+".arg")}}
	case kind == 9:
		if rapid.IntRange(0, 2).Draw(t, label+".opt") == 0 {
			// another percentile read from an existing percentile's histogram
			in := &h.Ex{Op: "PCT", F: rapid.SampledFrom(h.ValNames).Draw(t, label+".of"), Pct: 50, Lo: 0, Hi: float64(rapid.SampledFrom([]int{10, 100}).Draw(t, label+".ohi")), Prec: rapid.SampledFrom([]int{0, 1, 2}).Draw(t, label+".oprec")}
			return &h.Ex{Op: "PCTOPT", Pct: float64(rapid.SampledFrom([]int{5, 50, 95}).Draw(t, label+".opct")), Args: []*h.Ex{in}}
		}
		return &h.Ex{Op: "PCT", F: rapid.SampledFrom(h.ValNames).Draw(t, label+".f"), Pct: float64(rapid.SampledFrom([]int{1, 50, 90, 99}).Draw(t, label+".pct")), Lo: 0, Hi: float64(rapid.SampledFrom([]int{10, 100}).Draw(t, label+".hi")), Prec: rapid.IntRange(0, 1).Draw(t, label+".prec")}
	case kind == 10:
		return &h.Ex{Op: "SHIFT", Off: -int64(rapid.IntRange(1, 3).Draw(t, label+".off")) * 1e9, Args: []*h.Ex{genTree(t, depth-1, label+".sh")}}
	}
	if len(label) > 2 && (label[len(label)-2:] == ".l" || label[len(label)-2:] == ".r") {
		// BOUNDED(...) is not a valid direct operand of a binary operator
		return h.GenAgg(t, cfg, label)
	}
	return &h.Ex{Op: "BOUNDEDTOP", Lo: float64(rapid.IntRange(-3, 3).Draw(t, label+".lo")), Hi: float64(rapid.IntRange(4, 30).Draw(t, label+".hi")), Args: []*h.Ex{h.GenAgg(t, cfg, label+".in")}}
}

func genUpd(t *rapid.T, label string) Upd {
	var u Upd
	for _, vn := range append(append([]string(nil), h.ValNames...), h.WeightVal) {
		switch rapid.IntRange(0, 4).Draw(t, label+".has."+vn) {
		case 0:
		case 1, 2:
			u.Vals = append(u.Vals, h.KV{N: vn, V: h.FloatV(float64(rapid.IntRange(-3, 9).Draw(t, label+".i."+vn)))})
		default:
			u.Vals = append(u.Vals, h.KV{N: vn, V: h.FloatV(float64(rapid.IntRange(-8, 40).Draw(t, label+".f."+vn)) / 4)})
		}
	}
	for _, dn := range []string{"da", "db", "dc"} {
		if rapid.IntRange(0, 3).Draw(t, label+".hd."+dn) > 0 {
			u.Dims = append(u.Dims, h.KV{N: dn, V: h.DimVal(t, dn, label+".d."+dn)})
		}
	}
	return u
}

func genC05Expr(t *rapid.T) C05ExprCase {
	c := C05ExprCase{Ex: genTree(t, 3, "e")}
	n := rapid.IntRange(0, 8).Draw(t, "nupd")
	for i := 0; i < n; i++ {
		c.Upds = append(c.Upds, genUpd(t, fmt.Sprintf("u%d", i)))
		c.Parts = append(c.Parts, rapid.IntRange(0, 2).Draw(t, fmt.Sprintf("part%d", i)))
	}
	return c
}

func (u *Upd) sub() h.SubPoint {
	sp := h.SubPoint{Dims: map[string]h.Val{}, Vals: map[string]float64{}}
	for _, kv := range u.Vals {
		sp.Vals[kv.N] = kv.V.F
	}
	for _, kv := range u.Dims {
		sp.Dims[kv.N] = kv.V
	}
	return sp
}

func (u *Upd) apply(e expr.Expr, b []byte) {
	params := expr.Map{}
	for _, kv := range u.Vals {
		params[kv.N] = kv.V.F
	}
	md := map[string]interface{}{}
	for _, kv := range u.Dims {
		md[kv.N] = kv.V.Go()
	}
	e.Update(b, params, bytemap.New(md))
}

func exDepth(e *h.Ex) int {
	d := 0
	for _, a := range e.Args {
		if x := exDepth(a); x > d {
			d = x
		}
	}
	return d + 1
}

func runC05Expr(c *C05ExprCase) error {
	e, err := h.BuildExpr(c.Ex)
	if err != nil {
		return fmt.Errorf("%w: %v", errSetup, err)
	}
	if err := e.Validate(); err != nil {
		return fmt.Errorf("%w: %v", errSetup, err)
	}
	w := e.EncodedWidth()
	states := [3][]byte{make([]byte, w), make([]byte, w), make([]byte, w)}
	all := make([]byte, w)
	var subs [3][]h.SubPoint
	var allSubs []h.SubPoint
	for i := range c.Upds {
		p := c.Parts[i]
		c.Upds[i].apply(e, states[p])
		c.Upds[i].apply(e, all)
		subs[p] = append(subs[p], c.Upds[i].sub())
		allSubs = append(allSubs, c.Upds[i].sub())
	}
	get := func(b []byte) (float64, bool) {
		v, ok, _ := e.Get(b)
		return v, ok
	}
	check := func(what string, b []byte, pts []h.SubPoint) error {
		gv, gok := get(b)
		wv, wok := h.EvalEx(c.Ex, pts, nil)
		if gok != wok || (gok && !h.FloatEq(gv, wv)) {
			return fmt.Errorf("%s of %s: got (%v, set=%v) want (%v, set=%v)", what, e.String(), gv, gok, wv, wok)
		}
		return nil
	}
	// direct accumulation agrees with the denotational value
	if err := check("direct accumulation", all, allSubs); err != nil {
		return err
	}
	merge := func(x, y []byte) ([]byte, error) {
		cx := append([]byte(nil), x...)
		cy := append([]byte(nil), y...)
		out := make([]byte, w)
		e.Merge(out, x, y)
		if !bytes.Equal(cx, x) || !bytes.Equal(cy, y) {
			return nil, fmt.Errorf("Merge of %s modified an operand", e.String())
		}
		return out, nil
	}
	m01, err := merge(states[0], states[1])
	if err != nil {
		return err
	}
	m10, err := merge(states[1], states[0])
	if err != nil {
		return err
	}
	if err := check("merge(p0,p1)", m01, append(append([]h.SubPoint(nil), subs[0]...), subs[1]...)); err != nil {
		return err
	}
	if err := check("merge(p1,p0) (commutativity)", m10, append(append([]h.SubPoint(nil), subs[0]...), subs[1]...)); err != nil {
		return err
	}
	m012, err := merge(m01, states[2])
	if err != nil {
		return err
	}
	m12, err := merge(states[1], states[2])
	if err != nil {
		return err
	}
	m0_12, err := merge(states[0], m12)
	if err != nil {
		return err
	}
	if err := check("merge(merge(p0,p1),p2)", m012, allSubs); err != nil {
		return err
	}
	if err := check("merge(p0,merge(p1,p2)) (associativity)", m0_12, allSubs); err != nil {
		return err
	}
	// merging with an empty state is the identity in value
	empty := make([]byte, w)
	me, err := merge(all, empty)
	if err != nil {
		return err
	}
	if err := check("merge(all, empty)", me, allSubs); err != nil {
		return err
	}
	return nil
}

func TestC05Expr(t *testing.T) {
	rec := h.NewRec(t, "TestC05Expr")
	rapid.Check(t, func(rt *rapid.T) {
		c := genC05Expr(rt)
		used := map[int]bool{}
		for _, p := range c.Parts {
			used[p] = true
		}
		d := exDepth(c.Ex)
		labels := []string{fmt.Sprintf("depth-%d", d), "root-" + c.Ex.Op}
		nt := d >= 3 && len(used) >= 2
		err := runC05Expr(&c)
		if outcome(rec, rt, &c, nt, labels, err) {
			rt.Fatalf("%v", err)
		}
	})
}

func init() {
	register("TestC05Expr", func(raw json.RawMessage) error {
		var c C05ExprCase
		if err := json.Unmarshal(raw, &c); err != nil {
			return err
		}
		return runC05Expr(&c)
	})
}
