// Package h holds the shared machinery of the zenodb property checks: the
// evidence recorder, the data model of generated cases, the reference
// semantics and the adapters around the real database.
package h

import (
	"encoding/json"
	"fmt"
	"hash/fnv"
	"os"
	"sort"
	"strings"
	"sync"
	"testing"
)

// Failure is one violated case (after shrinking: the last failing case seen).
type Failure struct {
	Test    string          `json:"test"`
	Case    json.RawMessage `json:"case"`
	Message string          `json:"message"`
	Sig     string          `json:"sig,omitempty"`
}

// Rec accumulates what a shard explored and writes it for the driver.
type Rec struct {
	mx           sync.Mutex
	test         string
	evaluations  int
	nontrivial   map[string]struct{}
	labels       map[string]int
	samples      []json.RawMessage
	failures     []Failure
	known        map[string]string
	excluded     int
	inconclusive int
	extra        map[string]interface{}
	failed       bool
	KnownSigs    map[string]bool
}

// NewRec creates a recorder that is flushed when the test ends.
func NewRec(t testing.TB, test string) *Rec {
	r := &Rec{test: test, nontrivial: map[string]struct{}{}, labels: map[string]int{}, known: map[string]string{}, extra: map[string]interface{}{}, KnownSigs: map[string]bool{}}
	for _, s := range strings.Split(os.Getenv("VERIF_KNOWN_SIGS"), ",") {
		if s != "" {
			r.KnownSigs[s] = true
		}
	}
	t.Cleanup(r.Flush)
	return r
}

func hashOf(b []byte) string {
	f := fnv.New64a()
	f.Write(b)
	return fmt.Sprintf("%016x", f.Sum64())
}

// Case records one executed case.
func (r *Rec) Case(c interface{}, nontrivial bool, labels ...string) {
	r.mx.Lock()
	defer r.mx.Unlock()
	if r.failed {
		return // shrinking re-executions are not counted
	}
	r.evaluations++
	for _, l := range labels {
		r.labels[l]++
	}
	if nontrivial {
		b, _ := json.Marshal(c)
		r.nontrivial[hashOf(b)] = struct{}{}
		if len(r.samples) < 3 || (r.evaluations%97 == 0 && len(r.samples) < 6) {
			if len(b) < 6000 {
				r.samples = append(r.samples, b)
			}
		}
	}
}

// Count adds n evaluations that are all distinct and non-trivial by
// construction (exhaustive enumerations); key identifies each.
func (r *Rec) CountKeyed(key string, nontrivial bool, labels ...string) {
	r.mx.Lock()
	defer r.mx.Unlock()
	r.evaluations++
	for _, l := range labels {
		r.labels[l]++
	}
	if nontrivial {
		r.nontrivial[hashOf([]byte(key))] = struct{}{}
	}
}

// Sample adds an explicit sample.
func (r *Rec) Sample(c interface{}) {
	r.mx.Lock()
	defer r.mx.Unlock()
	if len(r.samples) < 6 {
		b, _ := json.Marshal(c)
		r.samples = append(r.samples, b)
	}
}

// Label bumps a label counter.
func (r *Rec) Label(l string) {
	r.mx.Lock()
	r.labels[l]++
	r.mx.Unlock()
}

// Fail records a violation; during shrinking the later (smaller) one wins.
func (r *Rec) Fail(c interface{}, msg string, sig string) {
	r.mx.Lock()
	defer r.mx.Unlock()
	b, _ := json.Marshal(c)
	f := Failure{Test: r.test, Case: b, Message: msg, Sig: sig}
	if r.failed && len(r.failures) > 0 {
		r.failures[len(r.failures)-1] = f
	} else {
		r.failures = append(r.failures, f)
	}
	r.failed = true
}

// FailKeep records a violation without replacing earlier ones (enumerations,
// replay of several files).
func (r *Rec) FailKeep(test string, c interface{}, msg string, sig string) {
	r.mx.Lock()
	defer r.mx.Unlock()
	b, _ := json.Marshal(c)
	r.failures = append(r.failures, Failure{Test: test, Case: b, Message: msg, Sig: sig})
}

// Known reports that the probe of a listed finding still fails.
func (r *Rec) Known(sig, text string) {
	r.mx.Lock()
	r.known[sig] = text
	r.mx.Unlock()
}

// Excluded counts a generated shape that was excluded by construction because
// it belongs to a listed finding.
func (r *Rec) Excluded(n int) {
	r.mx.Lock()
	r.excluded += n
	r.mx.Unlock()
}

// Inconclusive counts a case whose verdict could not be established.
func (r *Rec) Inconclusive() {
	r.mx.Lock()
	r.inconclusive++
	r.mx.Unlock()
}

// Extra sets an additional coverage key.
func (r *Rec) Extra(k string, v interface{}) {
	r.mx.Lock()
	r.extra[k] = v
	r.mx.Unlock()
}

// AddExtra adds to a numeric coverage key.
func (r *Rec) AddExtra(k string, n int) {
	r.mx.Lock()
	cur, _ := r.extra[k].(int)
	r.extra[k] = cur + n
	r.mx.Unlock()
}

// Flush writes the shard file named by VERIF_SHARD_OUT.
func (r *Rec) Flush() {
	r.mx.Lock()
	defer r.mx.Unlock()
	out := os.Getenv("VERIF_SHARD_OUT")
	if out == "" {
		return
	}
	nt := make([]string, 0, len(r.nontrivial))
	for k := range r.nontrivial {
		nt = append(nt, k)
	}
	sort.Strings(nt)
	doc := map[string]interface{}{
		"test": r.test, "evaluations": r.evaluations, "nontrivial": nt, "labels": r.labels,
		"samples": r.samples, "failures": r.failures, "known": r.known,
		"excluded_known": r.excluded, "inconclusive": r.inconclusive, "extra": r.extra,
	}
	b, _ := json.Marshal(doc)
	tmp := out + ".tmp"
	if err := os.WriteFile(tmp, b, 0644); err == nil {
		os.Rename(tmp, out)
	}
}

// Tier returns "quick" or "thorough".
func Tier() string {
	if os.Getenv("VERIF_TIER") == "thorough" {
		return "thorough"
	}
	return "quick"
}

// Thorough reports whether the thorough tier is running.
func Thorough() bool { return Tier() == "thorough" }
