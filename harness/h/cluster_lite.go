package h

import (
	"context"
	"fmt"
	"sync/atomic"
	"time"

	"github.com/getlantern/zenodb"
	"github.com/getlantern/zenodb/common"
	"github.com/getlantern/zenodb/core"
	"github.com/getlantern/zenodb/planner"
)

// FollowerHandler answers a cluster query on behalf of a partition exactly
// like a follower does (DB.queryForRemote is not exported): plan the received
// SQL locally and stream rows back, unflattened when asked.
func FollowerHandler(z *zenodb.DB) planner.QueryClusterFN {
	return func(ctx context.Context, sqlString string, isSubQuery bool, subQueryResults [][]interface{}, unflat bool, onFields core.OnFields, onRow core.OnRow, onFlatRow core.OnFlatRow) (interface{}, error) {
		source, err := z.Query(sqlString, isSubQuery, subQueryResults, common.ShouldIncludeMemStore(ctx))
		if err != nil {
			return nil, err
		}
		if unflat {
			return core.UnflattenOptimized(source).Iterate(ctx, onFields, onRow)
		}
		return source.Iterate(ctx, onFields, onFlatRow)
	}
}

// PlanLeader is a passthrough leader used only for planning and fan-out: its
// partitions are answered by harness-registered handlers.
type PlanLeader struct {
	Z      *zenodb.DB
	closed int32
}

// OpenPlanLeader opens a passthrough database with n partitions.
func OpenPlanLeader(dir string, s *Schema, n int) (*PlanLeader, error) {
	return OpenPlanLeaderT(dir, s, n, QuiesceTimeout)
}

// OpenPlanLeaderT is OpenPlanLeader with a chosen cluster query timeout.
func OpenPlanLeaderT(dir string, s *Schema, n int, clusterQueryTimeout time.Duration) (*PlanLeader, error) {
	pl := &PlanLeader{}
	z, err := zenodb.NewDB(&zenodb.DBOpts{
		Dir:                     dir,
		VirtualTime:             true,
		Passthrough:             true,
		NumPartitions:           n,
		ClusterQueryConcurrency: 64,
		ClusterQueryTimeout:     clusterQueryTimeout,
		Panic:                   func(v interface{}) { select {} },
	})
	if err != nil {
		return nil, err
	}
	if err := z.ApplySchema(ZSchema(s)); err != nil {
		z.Close()
		return nil, fmt.Errorf("apply schema: %w", err)
	}
	pl.Z = z
	return pl, nil
}

// Serve keeps handlers registered for a partition until the leader is closed.
// Every cluster query consumes one handler per partition.
func (pl *PlanLeader) Serve(partition int, fn planner.QueryClusterFN) {
	// a first batch synchronously, so that no query can find the partition
	// without a handler; the goroutine keeps the queue topped up
	for i := 0; i < 16; i++ {
		pl.Z.RegisterQueryHandler(partition, fn)
	}
	go func() {
		for atomic.LoadInt32(&pl.closed) == 0 {
			pl.Z.RegisterQueryHandler(partition, fn)
		}
	}()
}

// Close closes the leader.
func (pl *PlanLeader) Close() {
	atomic.StoreInt32(&pl.closed, 1)
	closeBounded(pl.Z, 10*time.Second)
}

// Query runs a query on the leader.
func (pl *PlanLeader) Query(sql string, o QueryOpts) (*Result, error) {
	src, err := pl.Z.Query(sql, false, nil, o.Mem)
	if err != nil {
		return nil, err
	}
	return RunSource(src, o)
}

var _ = time.Second
