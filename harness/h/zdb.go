package h

import (
	"context"
	"errors"
	"fmt"
	"io"
	"os"
	"path/filepath"
	"sort"
	"strings"
	"sync/atomic"
	"time"

	"github.com/getlantern/bytemap"
	"github.com/getlantern/golog"
	"github.com/getlantern/zenodb"
	"github.com/getlantern/zenodb/common"
	"github.com/getlantern/zenodb/core"
)

func init() {
	golog.SetOutputs(io.Discard, io.Discard)
}

// ErrInconclusive marks a case whose verdict could not be established (a
// bounded wait expired). It is never reported as a violation.
var ErrInconclusive = errors.New("inconclusive")

// QuiesceTimeout bounds every wait for ingestion to catch up.
var QuiesceTimeout = 60 * time.Second

var scratchSeq int64

// ScratchDir returns a fresh directory below the scratch root (which is also
// TMPDIR, so zenodb's flush temp files rename onto the same filesystem).
func ScratchDir(prefix string) string {
	root := os.Getenv("VERIF_SCRATCH")
	if root == "" {
		root = os.TempDir()
	}
	d := filepath.Join(root, fmt.Sprintf("%s-%d-%d", prefix, os.Getpid(), atomic.AddInt64(&scratchSeq, 1)))
	os.MkdirAll(d, 0755)
	return d
}

// DBConf are the database options a case can vary.
type DBConf struct {
	MaxMemoryRatio float64 `json:"max_mem_ratio,omitempty"`
	CoalesceMS     int     `json:"coalesce_ms,omitempty"`
}

// DB wraps a zenodb database opened on a scratch directory.
type DB struct {
	closed  int32
	panics  atomic.Value // string: first Panic raised by zenodb while the DB was open
	Z       *zenodb.DB
	Dir     string
	Schema  *Schema
	Conf    DBConf
	marker  *int64
	streams []string
}

// ZSchema converts the model schema into zenodb's.
func ZSchema(s *Schema) zenodb.Schema {
	zs := zenodb.Schema{}
	for i := range s.Tables {
		t := &s.Tables[i]
		zs[t.Name] = &zenodb.TableOpts{
			Name:            t.Name,
			View:            t.ViewOf != "",
			MinFlushLatency: time.Duration(t.MinFlushNS),
			MaxFlushLatency: time.Duration(t.MaxFlushNS),
			RetentionPeriod: time.Duration(t.RetNS),
			PartitionBy:     append([]string(nil), t.PartBy...),
			SQL:             t.SQL(),
		}
	}
	return zs
}

func streamsOf(s *Schema) []string {
	set := map[string]bool{}
	for _, t := range s.Tables {
		if t.ViewOf == "" {
			set[strings.ToLower(t.Stream)] = true
		}
	}
	return SortedNames(set)
}

// OpenDB opens (or re-opens) a standalone database.
func OpenDB(dir string, s *Schema, conf DBConf, marker *int64) (*DB, error) {
	coalesce := time.Duration(conf.CoalesceMS) * time.Millisecond
	if coalesce <= 0 {
		coalesce = 200 * time.Microsecond
	}
	if marker == nil {
		marker = new(int64)
	}
	d := &DB{Dir: dir, Schema: s, Conf: conf, marker: marker, streams: streamsOf(s)}
	z, err := zenodb.NewDB(&zenodb.DBOpts{
		Dir:                       dir,
		VirtualTime:               true,
		IterationCoalesceInterval: coalesce,
		MaxMemoryRatio:            conf.MaxMemoryRatio,
		Panic:                     d.onPanic,
	})
	if err != nil {
		return nil, err
	}
	d.Z = z
	if err := z.ApplySchema(ZSchema(s)); err != nil {
		z.Close()
		return nil, fmt.Errorf("apply schema: %w", err)
	}
	// a query that arrives before the row store has created its memstore
	// dereferences nil (start-up race outside the listed properties)
	if err := d.WaitQuiet(); err != nil {
		z.Close()
		return nil, err
	}
	return d, nil
}

// Apply re-applies a (changed) schema and waits until field updates landed.
func (d *DB) Apply(s *Schema) error {
	if err := d.Z.ApplySchema(ZSchema(s)); err != nil {
		return err
	}
	d.Schema = s
	d.streams = streamsOf(s)
	return d.WaitQuiet()
}

// onPanic replaces zenodb's fatal-error hook. WAL reader goroutines outlive
// Close and call it once the scratch directory is gone; those are parked.
// A Panic while the database is open is remembered and reported by the case.
func (d *DB) onPanic(v interface{}) {
	if atomic.LoadInt32(&d.closed) == 0 {
		if d.panics.Load() == nil {
			d.panics.Store(fmt.Sprint(v))
		}
	}
	select {}
}

// Panicked returns the first fatal error zenodb raised while the DB was open.
func (d *DB) Panicked() string {
	if v := d.panics.Load(); v != nil {
		return v.(string)
	}
	return ""
}

// Close closes the database.
func (d *DB) Close() {
	atomic.StoreInt32(&d.closed, 1)
	closeBounded(d.Z, 30*time.Second)
}

// Insert inserts one point into a stream.
func (d *DB) Insert(stream string, p Point) error {
	return d.Z.Insert(stream, p.Time(), p.DimMap(), p.ValMap())
}

// Quiesce inserts a barrier marker into every stream and waits until every
// table has processed it and has nothing in flight.
func (d *DB) Quiesce() error {
	k := atomic.AddInt64(d.marker, 1)
	if k >= zenodb.VerifMarkerMax {
		return fmt.Errorf("marker overflow")
	}
	for _, st := range d.streams {
		if err := d.Z.Insert(st, time.Unix(0, k), nil, nil); err != nil {
			return fmt.Errorf("marker insert: %w", err)
		}
	}
	deadline := time.Now().Add(QuiesceTimeout)
	for {
		ok := true
		for _, p := range d.Z.VerifProgress() {
			if p.Marker < k || !p.Quiet() {
				ok = false
				break
			}
		}
		if ok {
			return nil
		}
		if p := d.Panicked(); p != "" {
			return fmt.Errorf("zenodb raised a fatal error (DBOpts.Panic) while ingesting: %s", p)
		}
		if time.Now().After(deadline) {
			return fmt.Errorf("%w: quiesce timed out: %+v", ErrInconclusive, d.Z.VerifProgress())
		}
		time.Sleep(300 * time.Microsecond)
	}
}

// WaitQuiet waits until nothing is in flight (no marker).
func (d *DB) WaitQuiet() error {
	deadline := time.Now().Add(QuiesceTimeout)
	for {
		ok := true
		for _, p := range d.Z.VerifProgress() {
			if !p.Quiet() {
				ok = false
				break
			}
		}
		if ok {
			return nil
		}
		if time.Now().After(deadline) {
			return fmt.Errorf("%w: wait-quiet timed out", ErrInconclusive)
		}
		time.Sleep(300 * time.Microsecond)
	}
}

// Result is a query result in delivery order.
type Result struct {
	Fields []string
	Rows   []RefRow
	Stats  *common.QueryStats
	AsOf   int64
	Until  int64
	Res    int64
}

// CanonKey renders a row key canonically.
func CanonKey(key bytemap.ByteMap) string {
	m := key.AsMap()
	names := make([]string, 0, len(m))
	for n := range m {
		names = append(names, n)
	}
	sort.Strings(names)
	parts := make([]string, 0, len(names))
	for _, n := range names {
		parts = append(parts, n+"="+CanonGo(m[n]))
	}
	return strings.Join(parts, ";")
}

// QueryOpts tunes one query execution.
type QueryOpts struct {
	IsSub   bool // run as a subquery (the field list is replaced by _points)
	Mem     bool
	Ctx     context.Context
	OnRow   func(i int, r RefRow) // called inside the row callback (may block / insert)
	Timeout time.Duration
}

// RunSource iterates a planned query into a Result.
func RunSource(src core.FlatRowSource, o QueryOpts) (*Result, error) {
	ctx := o.Ctx
	if ctx == nil {
		ctx = context.Background()
	}
	res := &Result{}
	type out struct {
		stats interface{}
		err   error
	}
	done := make(chan out, 1)
	go func() {
		defer func() {
			if p := recover(); p != nil {
				done <- out{nil, fmt.Errorf("PANIC in Iterate: %v", p)}
			}
		}()
		i := 0
		stats, err := src.Iterate(ctx, func(fields core.Fields) error {
			res.Fields = fields.Names()
			return nil
		}, func(row *core.FlatRow) (bool, error) {
			r := RefRow{TS: row.TS, Key: CanonKey(row.Key), Vals: make(map[string]float64, len(row.Values)), KeyMap: row.Key.AsMap()}
			for j, v := range row.Values {
				if j < len(res.Fields) {
					r.Vals[res.Fields[j]] = v
				} else {
					r.Vals[fmt.Sprintf("#%d", j)] = v
				}
			}
			res.Rows = append(res.Rows, r)
			if o.OnRow != nil {
				o.OnRow(i, r)
			}
			i++
			return true, nil
		})
		done <- out{stats, err}
	}()
	timeout := o.Timeout
	if timeout <= 0 {
		timeout = QuiesceTimeout
	}
	select {
	case r := <-done:
		if qs, ok := r.stats.(*common.QueryStats); ok {
			res.Stats = qs
		}
		res.AsOf = src.GetAsOf().UnixNano()
		res.Until = src.GetUntil().UnixNano()
		res.Res = int64(src.GetResolution())
		return res, r.err
	case <-time.After(timeout):
		return nil, fmt.Errorf("%w: query did not return within %v", ErrInconclusive, timeout)
	}
}

// Query plans and runs a query.
func (d *DB) Query(sql string, o QueryOpts) (*Result, error) {
	src, err := d.Z.Query(sql, o.IsSub, nil, o.Mem)
	if err != nil {
		return nil, err
	}
	return RunSource(src, o)
}

// Flush forces a flush of all tables and waits for it.
func (d *DB) Flush() { d.Z.FlushAll() }

// IsInconclusive reports whether err stems from a bounded wait.
func IsInconclusive(err error) bool {
	if err == nil {
		return false
	}
	// also when a caller wrapped it with %v and the chain was lost: a bounded
	// wait that expired must never be turned into a verdict by formatting
	return errors.Is(err, ErrInconclusive) || strings.Contains(err.Error(), "inconclusive: ")
}
