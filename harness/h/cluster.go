package h

import (
	"context"
	"errors"
	"fmt"
	"path/filepath"
	"sync"
	"sync/atomic"
	"time"

	"github.com/getlantern/wal"
	"github.com/getlantern/zenodb"
	"github.com/getlantern/zenodb/common"
	"github.com/getlantern/zenodb/core"
	"github.com/getlantern/zenodb/planner"
)

func init() {
	zenodb.VerifSetFastFollow(true)
}

var errLinkDown = errors.New("link down")

// ClusterConf describes an in-process cluster.
type ClusterConf struct {
	Partitions   int `json:"partitions"`
	Leaders      int `json:"leaders"`
	FollowersPer int `json:"followers_per"` // followers per partition
}

// Node is one database of the cluster.
type Node struct {
	c         *Cluster
	Z         *zenodb.DB
	Dir       string
	Leader    bool
	ID        int
	Partition int
	up        int32
	links     map[int]*Link // follower: per leader id
	stopReg   chan struct{}
	marker    int64
	gen       int64 // incarnation
	queryFn   planner.QueryClusterFN
}

// Link is the harness-owned connection follower <- leader. It implements the
// contract of server.followSource: follow from EarliestOffset, advance it with
// every delivered entry, re-follow after an error.
type Link struct {
	mx        sync.Mutex
	follower  *Node
	leaderID  int
	spec      *common.Follow
	insert    func(data []byte, newOffset wal.Offset, source int) error
	cut       bool
	gen       int64
	lastCB    string // offset of the last callback that completed (any outcome)
	inFlight  int32
	delivered int64
	joins     int64
	followerG int64
	leaderG   int64
	delayUS   int64 // artificial delay per delivered entry (slow follower)
}

// Cluster is a set of leaders and followers wired in-process.
type Cluster struct {
	Root      string
	Schema    *Schema
	Conf      ClusterConf
	Leaders   []*Node
	Followers []*Node
	mx        sync.Mutex
	closed    int32
	joinsByL  map[string]int64
	joinMx    sync.Mutex // serialises Follow calls (see runLink)
}

func (c *Cluster) ntables() int {
	n := 0
	for _, t := range c.Schema.Tables {
		_ = t
		n++
	}
	return n
}

// OpenCluster starts leaders and followers and waits until every follower
// follows every leader.
func OpenCluster(root string, s *Schema, conf ClusterConf) (*Cluster, error) {
	c := &Cluster{Root: root, Schema: s, Conf: conf, joinsByL: map[string]int64{}}
	for i := 0; i < conf.Leaders; i++ {
		n := &Node{c: c, Leader: true, ID: i + 1, Dir: filepath.Join(root, fmt.Sprintf("leader%d", i+1))}
		if err := c.startLeader(n); err != nil {
			c.Close()
			return nil, err
		}
		c.Leaders = append(c.Leaders, n)
	}
	for p := 0; p < conf.Partitions; p++ {
		for r := 0; r < conf.FollowersPer; r++ {
			n := &Node{c: c, ID: r + 1, Partition: p, Dir: filepath.Join(root, fmt.Sprintf("follower%d_%d", p, r+1)), links: map[int]*Link{}}
			c.Followers = append(c.Followers, n)
			if err := c.StartFollower(n); err != nil {
				c.Close()
				return nil, err
			}
		}
	}
	return c, nil
}

func (c *Cluster) startLeader(n *Node) error {
	z, err := zenodb.NewDB(&zenodb.DBOpts{
		Dir:                     n.Dir,
		VirtualTime:             true,
		Passthrough:             true,
		ID:                      n.ID,
		NumPartitions:           c.Conf.Partitions,
		ClusterQueryConcurrency: 4,
		ClusterQueryTimeout:     QuiesceTimeout,
		Panic:                   func(v interface{}) { select {} },
	})
	if err != nil {
		return err
	}
	if err := z.ApplySchema(ZSchema(c.Schema)); err != nil {
		z.Close()
		return err
	}
	n.Z = z
	atomic.AddInt64(&n.gen, 1)
	atomic.StoreInt32(&n.up, 1)
	return nil
}

// StartFollower (re)starts a follower on its directory.
func (c *Cluster) StartFollower(n *Node) error {
	gen := atomic.AddInt64(&n.gen, 1)
	n.stopReg = make(chan struct{})
	started := make(chan struct{})
	var z *zenodb.DB
	opts := &zenodb.DBOpts{
		Dir:                       n.Dir,
		VirtualTime:               true,
		ID:                        n.ID,
		NumPartitions:             c.Conf.Partitions,
		Partition:                 n.Partition,
		Panic:                     func(v interface{}) { select {} },
		IterationCoalesceInterval: 200 * time.Microsecond,
		Follow: func(ff func(sources []int) map[int]*common.Follow, insert func(data []byte, newOffset wal.Offset, source int) error) {
			<-started
			sources := make([]int, 0, len(c.Leaders))
			for _, l := range c.Leaders {
				sources = append(sources, l.ID)
			}
			follows := ff(sources)
			for source, f := range follows {
				lk := &Link{follower: n, leaderID: source, spec: f, insert: insert, followerG: gen}
				c.mx.Lock()
				if old := n.links[source]; old != nil {
					lk.cut = old.cut
					lk.delayUS = atomic.LoadInt64(&old.delayUS)
				}
				n.links[source] = lk
				c.mx.Unlock()
				go c.runLink(lk)
			}
		},
		RegisterRemoteQueryHandler: func(db *zenodb.DB, partition int, query planner.QueryClusterFN) {
			<-started
			// a handler of a stopped incarnation behaves like a dead connection:
			// retriable error, the leader moves on to the next handler
			n.queryFn = func(ctx context.Context, sqlString string, isSubQuery bool, subQueryResults [][]interface{}, unflat bool, onFields core.OnFields, onRow core.OnRow, onFlatRow core.OnFlatRow) (interface{}, error) {
				if atomic.LoadInt64(&n.gen) != gen || atomic.LoadInt32(&n.up) == 0 {
					return nil, common.MarkRetriable(errLinkDown)
				}
				return query(ctx, sqlString, isSubQuery, subQueryResults, unflat, onFields, onRow, onFlatRow)
			}
			for _, l := range c.Leaders {
				if l.Up() {
					c.serve(l, n)
				}
			}
		},
	}
	var err error
	z, err = zenodb.NewDB(opts)
	if err != nil {
		return err
	}
	n.Z = z
	if err := z.ApplySchema(ZSchema(c.Schema)); err != nil {
		z.Close()
		return err
	}
	atomic.StoreInt32(&n.up, 1)
	close(started)
	if !z.VerifStartFollowing(c.ntables(), QuiesceTimeout) {
		return fmt.Errorf("%w: follower did not subscribe its tables", ErrInconclusive)
	}
	return nil
}

// serve keeps the follower registered as a query handler of its partition on
// the leader while both incarnations live.
func (c *Cluster) serve(l *Node, f *Node) {
	lgen := atomic.LoadInt64(&l.gen)
	fgen := atomic.LoadInt64(&f.gen)
	lz := l.Z
	fn := f.queryFn
	if fn == nil {
		return
	}
	go func() {
		for atomic.LoadInt32(&c.closed) == 0 && atomic.LoadInt64(&l.gen) == lgen && atomic.LoadInt64(&f.gen) == fgen {
			lz.RegisterQueryHandler(f.Partition, fn)
		}
	}()
}

// runLink follows the leader until the follower incarnation ends.
func (c *Cluster) runLink(lk *Link) {
	for {
		if atomic.LoadInt32(&c.closed) == 1 || atomic.LoadInt64(&lk.follower.gen) != lk.followerG {
			return
		}
		lk.mx.Lock()
		cut := lk.cut
		lk.mx.Unlock()
		var leader *Node
		for _, l := range c.Leaders {
			if l.ID == lk.leaderID {
				leader = l
			}
		}
		if cut || leader == nil || atomic.LoadInt32(&leader.up) == 0 {
			time.Sleep(500 * time.Microsecond)
			continue
		}
		// One Follow call at a time, and the next one only after the leader has
		// processed this one: a leader keeps one registration per follower id and
		// the latest join wins, so a Follow call of a stopped incarnation must not
		// be able to overtake the one of its successor (in a real deployment the
		// old process is gone before the new one dials).
		c.joinMx.Lock()
		if atomic.LoadInt32(&c.closed) == 1 || atomic.LoadInt64(&lk.follower.gen) != lk.followerG || atomic.LoadInt32(&leader.up) == 0 {
			c.joinMx.Unlock()
			continue
		}
		lk.mx.Lock()
		lk.gen++
		gen := lk.gen
		lgen := atomic.LoadInt64(&leader.gen)
		lk.leaderG = lgen
		spec := *lk.spec
		lk.joins++
		lk.mx.Unlock()
		c.mx.Lock()
		c.joinsByL[fmt.Sprintf("%d/%d", leader.ID, lgen)]++
		issued := c.joinsByL[fmt.Sprintf("%d/%d", leader.ID, lgen)]
		c.mx.Unlock()
		lz := leader.Z
		done := make(chan struct{})
		broken := make(chan struct{}, 1)
		go func() {
			defer close(done)
			leader.Z.Follow(&spec, func(data []byte, offset wal.Offset) error {
				atomic.AddInt32(&lk.inFlight, 1)
				defer atomic.AddInt32(&lk.inFlight, -1)
				lk.mx.Lock()
				stale := lk.gen != gen || lk.cut || atomic.LoadInt64(&lk.follower.gen) != lk.followerG || atomic.LoadInt64(&leader.gen) != lgen
				lk.mx.Unlock()
				var err error
				if stale {
					err = errLinkDown
				} else {
					if d := atomic.LoadInt64(&lk.delayUS); d > 0 {
						time.Sleep(time.Duration(d) * time.Microsecond)
					}
					err = lk.insert(data, offset, lk.leaderID)
				}
				lk.mx.Lock()
				if lk.gen == gen {
					lk.lastCB = string(offset)
					if err == nil {
						lk.spec.EarliestOffset = offset
						lk.delivered++
					}
				}
				lk.mx.Unlock()
				if err != nil {
					select {
					case broken <- struct{}{}:
					default:
					}
				}
				return err
			})
		}()
		for joinDeadline := time.Now().Add(5 * time.Second); time.Now().Before(joinDeadline); {
			if lz.VerifLeader().Joins >= issued || atomic.LoadInt64(&leader.gen) != lgen || atomic.LoadInt32(&c.closed) == 1 {
				break
			}
			time.Sleep(100 * time.Microsecond)
		}
		c.joinMx.Unlock()
		// wait until the connection breaks (error from the callback), the leader
		// or follower incarnation changes, or the link is cut
	wait:
		for {
			select {
			case <-done:
				break wait
			case <-broken:
				break wait
			case <-time.After(500 * time.Microsecond):
				lk.mx.Lock()
				cut := lk.cut
				lk.mx.Unlock()
				if cut || atomic.LoadInt32(&c.closed) == 1 || atomic.LoadInt64(&lk.follower.gen) != lk.followerG || atomic.LoadInt64(&leader.gen) != lgen {
					break wait
				}
			}
		}
		lk.mx.Lock()
		lk.gen++ // invalidate the old callback
		lk.mx.Unlock()
	}
}

// Cut cuts (or restores) the link follower <- leader.
func (c *Cluster) Cut(f *Node, leaderID int, cut bool) {
	c.mx.Lock()
	lk := f.links[leaderID]
	c.mx.Unlock()
	if lk != nil {
		lk.mx.Lock()
		lk.cut = cut
		lk.mx.Unlock()
	}
}

// StopFollower closes a follower cleanly.
func (c *Cluster) StopFollower(n *Node) {
	atomic.StoreInt32(&n.up, 0)
	atomic.AddInt64(&n.gen, 1)
	close(n.stopReg)
	closeBounded(n.Z, 20*time.Second)
}

// RestartLeader closes and reopens a leader on its directory.
func (c *Cluster) RestartLeader(n *Node) error {
	atomic.StoreInt32(&n.up, 0)
	atomic.AddInt64(&n.gen, 1)
	if !closeBounded(n.Z, 20*time.Second) {
		return fmt.Errorf("%w: leader did not close", ErrInconclusive)
	}
	if err := c.startLeader(n); err != nil {
		return err
	}
	for _, f := range c.Followers {
		if f.Up() {
			c.serve(n, f)
		}
	}
	return nil
}

// Close stops everything.
func (c *Cluster) Close() {
	atomic.StoreInt32(&c.closed, 1)
	for _, f := range c.Followers {
		if atomic.LoadInt32(&f.up) == 1 {
			c.StopFollower(f)
		}
	}
	for _, l := range c.Leaders {
		if atomic.LoadInt32(&l.up) == 1 {
			atomic.StoreInt32(&l.up, 0)
			closeBounded(l.Z, 5*time.Second)
		}
	}
}

// Insert inserts a point through a leader.
func (c *Cluster) Insert(leader int, stream string, p Point) error {
	return c.Leaders[leader].Z.Insert(stream, p.Time(), p.DimMap(), p.ValMap())
}

// AdvanceClocks pins the clocks of all live nodes.
func (c *Cluster) AdvanceClocks(now int64) {
	for _, l := range c.Leaders {
		if atomic.LoadInt32(&l.up) == 1 {
			l.Z.VerifAdvanceClock(time.Unix(0, now))
		}
	}
	for _, f := range c.Followers {
		if atomic.LoadInt32(&f.up) == 1 {
			f.Z.VerifAdvanceClock(time.Unix(0, now))
		}
	}
}

// Up reports whether the node is running.
func (n *Node) Up() bool { return atomic.LoadInt32(&n.up) == 1 }

type clusterSnapshot struct {
	s string
}

// joinsSettled reports whether every live leader has processed every Follow
// call issued to its current incarnation and every live uncut link has
// issued one.
func (c *Cluster) joinsSettled() (bool, string) {
	snap := ""
	for _, l := range c.Leaders {
		if !l.Up() {
			continue
		}
		lgen := atomic.LoadInt64(&l.gen)
		for _, f := range c.Followers {
			if !f.Up() {
				continue
			}
			c.mx.Lock()
			lk := f.links[l.ID]
			c.mx.Unlock()
			if lk == nil {
				return false, "no link yet"
			}
			lk.mx.Lock()
			cut, lg, fg := lk.cut, lk.leaderG, lk.followerG
			lk.mx.Unlock()
			if cut {
				continue
			}
			if lg != lgen || fg != atomic.LoadInt64(&f.gen) {
				return false, "link not re-followed yet"
			}
		}
		c.mx.Lock()
		issued := c.joinsByL[fmt.Sprintf("%d/%d", l.ID, lgen)]
		c.mx.Unlock()
		lp := l.Z.VerifLeader()
		if lp.Joins != issued {
			return false, fmt.Sprintf("leader %d processed %d of %d joins", l.ID, lp.Joins, issued)
		}
		snap += fmt.Sprintf("|L%d:%d", l.ID, lp.Joins)
	}
	return true, snap
}

// Quiesce waits until every live leader has dispatched everything written to
// it and every live, connected follower has applied everything sent to it.
func (c *Cluster) Quiesce() error {
	streams := streamsOf(c.Schema)
	deadline := time.Now().Add(QuiesceTimeout)
restart:
	for {
		ok, why := c.joinsSettled()
		if !ok {
			if time.Now().After(deadline) {
				return fmt.Errorf("%w: cluster joins did not settle: %s", ErrInconclusive, why)
			}
			time.Sleep(500 * time.Microsecond)
			continue restart
		}
		err, again := c.quiesceOnce(streams, deadline)
		if again {
			continue restart
		}
		return err
	}
}

// quiesceOnce inserts the barrier markers and waits; again is true when a
// (re)join happened meanwhile (the leader restarted its WAL reader).
func (c *Cluster) quiesceOnce(streams []string, deadline time.Time) (error, bool) {
	_, joinSnap := c.joinsSettled()
	// barrier marker through every live leader
	markers := map[int]int64{}
	for _, l := range c.Leaders {
		if !l.Up() {
			continue
		}
		k := atomic.AddInt64(&l.marker, 1)
		markers[l.ID] = k
		for _, st := range streams {
			if err := l.Z.Insert(st, time.Unix(0, k), nil, nil); err != nil {
				return fmt.Errorf("marker insert: %w", err), false
			}
		}
	}
	stable := ""
	for {
		if ok, js := c.joinsSettled(); !ok || js != joinSnap {
			return nil, true
		}
		ok := true
		snap := ""
		for _, l := range c.Leaders {
			if !l.Up() {
				continue
			}
			lp := l.Z.VerifLeader()
			nlinks := 0
			for _, f := range c.Followers {
				if !f.Up() {
					continue
				}
				c.mx.Lock()
				lk := f.links[l.ID]
				c.mx.Unlock()
				lk.mx.Lock()
				cut := lk.cut
				lastCB := lk.lastCB
				delivered := lk.delivered
				lk.mx.Unlock()
				if cut {
					continue
				}
				nlinks++
				fid := common.FollowerID{Partition: f.Partition, ID: f.ID}
				if sub, has := lp.Submitted[fid]; has && string(sub) != lastCB {
					ok = false
				}
				if atomic.LoadInt32(&lk.inFlight) != 0 {
					ok = false
				}
				snap += fmt.Sprintf("|%d.%d<-%d:%x:%d", f.Partition, f.ID, l.ID, lastCB, delivered)
			}
			if nlinks > 0 {
				for _, st := range streams {
					if lp.DispMarker[st] < markers[l.ID] {
						ok = false
					}
				}
			}
			snap += fmt.Sprintf("|L%d:%d:%d", l.ID, lp.DispCount, lp.Joins)
		}
		for _, f := range c.Followers {
			if !f.Up() {
				continue
			}
			for _, p := range f.Z.VerifProgress() {
				if !p.Quiet() {
					ok = false
				}
				snap += fmt.Sprintf("|%d.%d.%s:%d:%d", f.Partition, f.ID, p.Name, p.Done, p.Applied)
			}
		}
		if ok {
			// two identical consecutive snapshots close the window between an
			// entry being received by a table and the counters recording it
			if snap == stable {
				return nil, false
			}
			stable = snap
			time.Sleep(1500 * time.Microsecond)
			continue
		}
		stable = ""
		if time.Now().After(deadline) {
			return fmt.Errorf("%w: cluster quiesce timed out (%s)", ErrInconclusive, snap), false
		}
		time.Sleep(500 * time.Microsecond)
	}
}

// QueryLeader runs a query on a leader.
func (c *Cluster) QueryLeader(leader int, sql string, o QueryOpts) (*Result, error) {
	src, err := c.Leaders[leader].Z.Query(sql, false, nil, o.Mem)
	if err != nil {
		return nil, err
	}
	return RunSource(src, o)
}

// QueryNode runs a query directly on a follower.
func (n *Node) Query(sql string, o QueryOpts) (*Result, error) {
	src, err := n.Z.Query(sql, false, nil, o.Mem)
	if err != nil {
		return nil, err
	}
	return RunSource(src, o)
}

// Delay makes the follower slow: every entry a leader delivers to it waits.
func (c *Cluster) Delay(f *Node, us int64) {
	c.mx.Lock()
	defer c.mx.Unlock()
	for _, lk := range f.links {
		atomic.StoreInt64(&lk.delayUS, us)
	}
}

// FreezeFollower cuts all links of a follower and waits until nothing is in
// flight towards or inside it. It returns the previous cut states for Thaw.
func (c *Cluster) FreezeFollower(f *Node) (map[int]bool, error) {
	prev := map[int]bool{}
	c.mx.Lock()
	links := make([]*Link, 0, len(f.links))
	for id, lk := range f.links {
		links = append(links, lk)
		lk.mx.Lock()
		prev[id] = lk.cut
		lk.cut = true
		lk.mx.Unlock()
	}
	c.mx.Unlock()
	deadline := time.Now().Add(QuiesceTimeout)
	stable := 0
	for {
		ok := true
		for _, lk := range links {
			if atomic.LoadInt32(&lk.inFlight) != 0 {
				ok = false
			}
		}
		for _, p := range f.Z.VerifProgress() {
			if !p.Quiet() {
				ok = false
			}
		}
		if ok {
			stable++
			if stable >= 3 {
				return prev, nil
			}
		} else {
			stable = 0
		}
		if time.Now().After(deadline) {
			return prev, fmt.Errorf("%w: follower did not become quiet", ErrInconclusive)
		}
		time.Sleep(500 * time.Microsecond)
	}
}

// Thaw restores the cut states saved by FreezeFollower.
func (c *Cluster) Thaw(f *Node, prev map[int]bool) {
	for id, cut := range prev {
		c.Cut(f, id, cut)
	}
}

// closeBounded closes a database but does not wait for it for ever: DB.Close
// waits for all background tasks and can block when one of them is stuck
// (which is exactly the situation some checks have to report, not hang on).
func closeBounded(z *zenodb.DB, wait time.Duration) bool {
	done := make(chan struct{})
	go func() {
		z.Close()
		close(done)
	}()
	select {
	case <-done:
		return true
	case <-time.After(wait):
		return false
	}
}
