package h

import (
	"fmt"

	"pgregory.net/rapid"
)

// BaseTS is the origin of all generated timestamps (2020-01-01T00:00:00Z).
const BaseTS = int64(1577836800) * 1e9

// Names are pairwise non-prefix (bytemap.Get matches keys by prefix, which is
// a listed finding of C01; the shared generators stay outside that class).
var (
	DimNames    = []string{"da", "db", "dc", "dd"}
	MixedDim    = "dm"
	ValNames    = []string{"va", "vb", "vc"}
	WeightVal   = "vw"
	Resolutions = []int64{250e6, 1e9, 2e9, 5e9, 7e9, 60e9}
)

// GenCfg bounds the shared generators.
type GenCfg struct {
	MaxPoints      int
	MaxPeriods     int
	MaxTables      int
	MaxFields      int
	AllowView      bool
	AllowWhere     bool
	AllowMixed     bool // mixed-type dimension dm and junk values
	AllowPct       bool
	AllowConst     bool // constants inside arithmetic
	AllowTimer     bool // timer flushes (MaxFlushLatency of a few ms)
	AllowIf        bool
	AllowArrays    bool
	FixedRes       int64
	AdditiveOnly   bool // only _points/SUM/COUNT/AVG fields (C02)
	NamedGroupOnly bool
	Excluded       *int // counts shapes excluded because of listed findings
}

func strVals(dim string) []Val {
	switch dim {
	case "da":
		return []Val{StrV("x"), StrV("y"), StrV("zed")}
	case "dc":
		return []Val{StrV("p"), StrV("q")}
	}
	return nil
}

// DimVal draws a value for a dimension (fixed type per dimension).
func DimVal(t *rapid.T, dim string, label string) Val {
	switch dim {
	case "da", "dc":
		return rapid.SampledFrom(strVals(dim)).Draw(t, label)
	case "db":
		return IntV(int64(rapid.IntRange(1, 3).Draw(t, label)))
	case "dd":
		return BoolV(rapid.Bool().Draw(t, label))
	case "dm":
		return rapid.SampledFrom([]Val{IntV(1), StrV("1"), FloatV(1.5), BoolV(true), {K: "i64", I: 1}, {K: "u8", I: 1}, IntV(2)}).Draw(t, label)
	}
	return NilV()
}

// GenPred draws a type-consistent dimension predicate.
func GenPred(t *rapid.T, depth int, label string) *Pred {
	kind := rapid.IntRange(0, 9).Draw(t, label+".kind")
	if depth <= 0 && kind >= 7 {
		kind = kind % 7
	}
	switch kind {
	case 7:
		return &Pred{Op: "AND", Args: []*Pred{GenPred(t, depth-1, label+".l"), GenPred(t, depth-1, label+".r")}}
	case 8:
		return &Pred{Op: "OR", Args: []*Pred{GenPred(t, depth-1, label+".l"), GenPred(t, depth-1, label+".r")}}
	case 9:
		return &Pred{Op: "NOT", Args: []*Pred{GenPred(t, depth-1, label+".n")}}
	}
	dim := rapid.SampledFrom([]string{"da", "db", "dc"}).Draw(t, label+".dim")
	switch kind {
	case 0, 1:
		op := rapid.SampledFrom([]string{"=", "<>", "<", "<=", ">", ">="}).Draw(t, label+".op")
		v := DimVal(t, dim, label+".lit")
		return &Pred{Op: op, Dim: dim, Lit: &v, Rev: rapid.IntRange(0, 3).Draw(t, label+".rev") == 0}
	case 2:
		if dim == "db" {
			dim = "da"
		}
		pat := rapid.SampledFrom([]string{"x", "z%", "%d", "%e%", "%", "y%", "q"}).Draw(t, label+".pat")
		op := rapid.SampledFrom([]string{"LIKE", "NOTLIKE"}).Draw(t, label+".like")
		v := StrV(pat)
		return &Pred{Op: op, Dim: dim, Lit: &v}
	case 3:
		n := rapid.IntRange(1, 3).Draw(t, label+".n")
		list := make([]Val, n)
		for i := range list {
			list[i] = DimVal(t, dim, fmt.Sprintf("%s.in%d", label, i))
		}
		return &Pred{Op: "IN", Dim: dim, List: list}
	case 4:
		return &Pred{Op: "ISNULL", Dim: dim}
	case 5:
		return &Pred{Op: "NOTNULL", Dim: dim}
	}
	v := DimVal(t, dim, label+".lit")
	return &Pred{Op: "=", Dim: dim, Lit: &v}
}

// GenAgg draws an aggregate leaf.
func GenAgg(t *rapid.T, cfg *GenCfg, label string) *Ex {
	ops := []string{"SUM", "MIN", "MAX", "COUNT", "AVG", "WAVG"}
	if cfg.AdditiveOnly {
		ops = []string{"SUM", "COUNT", "AVG"}
	}
	op := rapid.SampledFrom(ops).Draw(t, label+".agg")
	e := &Ex{Op: op, F: rapid.SampledFrom(ValNames).Draw(t, label+".f")}
	if op == "WAVG" {
		e.W = WeightVal
	}
	if !cfg.AdditiveOnly && rapid.IntRange(0, 5).Draw(t, label+".bnd") == 0 {
		e.Bnd = true
		e.Lo = float64(rapid.IntRange(-2, 2).Draw(t, label+".lo"))
		e.Hi = e.Lo + float64(rapid.IntRange(0, 6).Draw(t, label+".span"))
	}
	return e
}

// GenValue draws an arithmetic (value) expression. The SQL grammar accepts
// only arithmetic between value expressions; comparisons and AND/OR are
// boolean expressions that may appear at the top of a field (or in HAVING).
func GenValue(t *rapid.T, cfg *GenCfg, depth int, label string) *Ex {
	kind := 0
	if depth > 0 {
		kind = rapid.IntRange(0, 9).Draw(t, label+".kind")
	}
	switch {
	case kind <= 3 || cfg.AdditiveOnly:
		return GenAgg(t, cfg, label)
	case kind <= 6:
		op := rapid.SampledFrom([]string{"+", "-", "*", "/"}).Draw(t, label+".bin")
		l := GenValue(t, cfg, depth-1, label+".l")
		var r *Ex
		if cfg.AllowConst && rapid.IntRange(0, 3).Draw(t, label+".const") == 0 {
			r = &Ex{Op: "CONST", Num: float64(rapid.IntRange(-2, 4).Draw(t, label+".num"))}
		} else {
			r = GenValue(t, cfg, depth-1, label+".r")
		}
		return &Ex{Op: op, Args: []*Ex{l, r}}
	case kind == 7:
		return &Ex{Op: rapid.SampledFrom([]string{"LN", "LOG2", "LOG10"}).Draw(t, label+".math"), Args: []*Ex{GenValue(t, cfg, depth-1, label+".arg")}}
	case kind == 8 && cfg.AllowPct:
		return &Ex{Op: "PCT", F: rapid.SampledFrom(ValNames).Draw(t, label+".f"), Pct: float64(rapid.SampledFrom([]int{1, 50, 90, 99}).Draw(t, label+".pct")), Lo: 0, Hi: float64(rapid.SampledFrom([]int{10, 100}).Draw(t, label+".hi")), Prec: rapid.IntRange(0, 1).Draw(t, label+".prec")}
	case kind == 9 && cfg.AllowIf:
		return &Ex{Op: "IF", Cond: GenPred(t, 1, label+".cond"), Args: []*Ex{GenValue(t, cfg, depth-1, label+".then")}}
	}
	return GenAgg(t, cfg, label)
}

// GenBool draws a boolean expression over values (comparison, AND, OR).
func GenBool(t *rapid.T, cfg *GenCfg, depth int, label string) *Ex {
	if depth > 0 && rapid.IntRange(0, 3).Draw(t, label+".bk") == 0 {
		op := rapid.SampledFrom([]string{"AND", "OR"}).Draw(t, label+".bop")
		return &Ex{Op: op, Args: []*Ex{GenBool(t, cfg, depth-1, label+".bl"), GenBool(t, cfg, depth-1, label+".br")}}
	}
	op := rapid.SampledFrom([]string{"<", "<=", "=", "<>", ">=", ">"}).Draw(t, label+".cmp")
	l := GenValue(t, cfg, 1, label+".cl")
	var r *Ex
	if !cfg.AllowConst && cfg.Excluded != nil && rapid.Bool().Draw(t, label+".cconst0") {
		*cfg.Excluded++ // constant operand: listed finding const-operand-gap-rows
	}
	if cfg.AllowConst && rapid.Bool().Draw(t, label+".cconst") {
		r = &Ex{Op: "CONST", Num: float64(rapid.IntRange(-2, 12).Draw(t, label+".cnum"))}
	} else {
		r = GenValue(t, cfg, 1, label+".cr")
	}
	return &Ex{Op: op, Args: []*Ex{l, r}}
}

// GenEx draws a table/query field expression: a value expression, a boolean
// expression, a top-level BOUNDED, or an IF around one of those.
func GenEx(t *rapid.T, cfg *GenCfg, depth int, label string) *Ex {
	if cfg.AdditiveOnly {
		return GenAgg(t, cfg, label)
	}
	switch rapid.IntRange(0, 9).Draw(t, label+".top") {
	case 0:
		return GenBool(t, cfg, 1, label+".b")
	case 1:
		return &Ex{Op: "BOUNDEDTOP", Lo: float64(rapid.IntRange(-3, 3).Draw(t, label+".lo")), Hi: float64(rapid.IntRange(4, 30).Draw(t, label+".hi")), Args: []*Ex{GenAgg(t, cfg, label+".in")}}
	case 2:
		if cfg.AllowIf {
			return &Ex{Op: "IF", Cond: GenPred(t, 1, label+".cond"), Args: []*Ex{GenEx(t, cfg, depth-1, label+".then")}}
		}
	}
	return GenValue(t, cfg, depth, label+".v")
}

// avgCollision reports the listed AVG/WAVG string collision: AVG(x) and
// WAVG(x, w) over the same inner expression stringify identically.
func avgCollision(fields []FieldDef) bool {
	seen := map[string]string{}
	bad := false
	// two fields with the same expression text (under different names) collide
	// in the same way: sub-mergers are matched by expression string
	texts := map[string]bool{}
	for _, f := range fields {
		if texts[f.Ex.SQL()] {
			bad = true
		}
		texts[f.Ex.SQL()] = true
	}
	for _, f := range fields {
		f.Ex.Walk(func(e *Ex) {
			if e.Op == "AVG" || e.Op == "WAVG" {
				k := e.inner()
				id := e.Op + "/" + e.W
				if prev, ok := seen[k]; ok && prev != id {
					bad = true
				}
				seen[k] = id
			}
		})
	}
	return bad
}

// GenTable draws one table definition.
func GenTable(t *rapid.T, cfg *GenCfg, name string, label string) TableDef {
	td := TableDef{Name: name, Stream: "inbound"}
	nf := rapid.IntRange(1, cfg.MaxFields).Draw(t, label+".nf")
	for tries := 0; ; tries++ {
		td.Fields = td.Fields[:0]
		for i := 0; i < nf; i++ {
			td.Fields = append(td.Fields, FieldDef{Name: fmt.Sprintf("f%c", 'a'+i), Ex: GenEx(t, cfg, 2, fmt.Sprintf("%s.f%d.%d", label, i, tries))})
		}
		if !avgCollision(td.Fields) {
			break
		}
		if cfg.Excluded != nil {
			*cfg.Excluded++
		}
		if tries > 5 {
			td.Fields = td.Fields[:1]
			break
		}
	}
	if !cfg.NamedGroupOnly && rapid.IntRange(0, 2).Draw(t, label+".gall") == 0 {
		td.GroupAll = true
	} else {
		n := rapid.IntRange(1, 3).Draw(t, label+".ngb")
		perm := rapid.Permutation(append([]string(nil), DimNames...)).Draw(t, label+".gb")
		td.GroupBy = append([]string(nil), perm[:n]...)
	}
	if cfg.AllowWhere && rapid.IntRange(0, 2).Draw(t, label+".where") == 0 {
		td.Where = GenPred(t, 1, label+".w")
	}
	if cfg.FixedRes > 0 {
		td.ResNS = cfg.FixedRes
	} else {
		td.ResNS = rapid.SampledFrom(Resolutions).Draw(t, label+".res")
	}
	td.RetNS = int64(rapid.IntRange(6, 60).Draw(t, label+".ret")) // extra periods; finalised by GenSchema
	if cfg.AllowTimer && rapid.IntRange(0, 3).Draw(t, label+".timer") == 0 {
		td.MaxFlushNS = int64(rapid.IntRange(1, 5).Draw(t, label+".maxflush")) * 1e6
		if rapid.Bool().Draw(t, label+".hasmin") {
			td.MinFlushNS = td.MaxFlushNS / 2
		}
	}
	return td
}

// GenSchema draws 1..MaxTables tables and optionally a view on the first.
func GenSchema(t *rapid.T, cfg *GenCfg) Schema {
	var s Schema
	nt := rapid.IntRange(1, cfg.MaxTables).Draw(t, "ntables")
	for i := 0; i < nt; i++ {
		s.Tables = append(s.Tables, GenTable(t, cfg, fmt.Sprintf("t%c", 'a'+i), fmt.Sprintf("t%d", i)))
	}
	// retention covers the whole generated time span (of the coarsest
	// resolution) plus a per-table margin, so nothing expires inside a case
	var maxRes int64
	for _, tb := range s.Tables {
		if tb.ResNS > maxRes {
			maxRes = tb.ResNS
		}
	}
	for i := range s.Tables {
		tb := &s.Tables[i]
		needed := maxRes * int64(cfg.MaxPeriods+3)
		tb.RetNS = tb.ResNS * (needed/tb.ResNS + 1 + tb.RetNS)
	}
	if cfg.AllowView && rapid.IntRange(0, 3).Draw(t, "view") == 0 {
		p := s.Tables[0]
		v := TableDef{Name: "vw", ViewOf: p.Name, Star: true, RetNS: p.RetNS, MaxFlushNS: p.MaxFlushNS}
		if rapid.Bool().Draw(t, "view.where") {
			v.Where = GenPred(t, 1, "view.w")
		}
		if rapid.Bool().Draw(t, "view.gb") {
			n := rapid.IntRange(1, 2).Draw(t, "view.ngb")
			perm := rapid.Permutation(append([]string(nil), DimNames...)).Draw(t, "view.gbp")
			v.GroupBy = append([]string(nil), perm[:n]...)
		}
		s.Tables = append(s.Tables, v)
	}
	return s
}

// MinRes returns the finest resolution in the schema (views inherit).
func (s *Schema) MinRes() int64 {
	var m int64
	for _, t := range s.Tables {
		if t.ResNS > 0 && (m == 0 || t.ResNS < m) {
			m = t.ResNS
		}
	}
	return m
}

// MaxRes returns the coarsest resolution in the schema.
func (s *Schema) MaxRes() int64 {
	var m int64
	for _, t := range s.Tables {
		if t.ResNS > m {
			m = t.ResNS
		}
	}
	return m
}

// GenPoint draws one point whose timestamp lies within nPeriods periods of
// the coarsest resolution after BaseTS.
func GenPoint(t *rapid.T, cfg *GenCfg, s *Schema, nPeriods int, label string) Point {
	res := rapid.SampledFrom(resSet(s)).Draw(t, label+".res")
	span := s.MaxRes() * int64(nPeriods)
	idx := rapid.Int64Range(0, span/res).Draw(t, label+".idx")
	grid := PeriodEnd(BaseTS+idx*res, res)
	var ts int64
	switch rapid.IntRange(0, 5).Draw(t, label+".frac") {
	case 0, 1:
		ts = grid // exact period boundary
	case 2:
		ts = grid + 1
	case 3:
		ts = grid - 1
	case 4:
		ts = grid + res/2
	default:
		ts = grid + rapid.Int64Range(1, res-1).Draw(t, label+".off")
	}
	p := Point{TS: ts}
	for _, dn := range DimNames {
		switch rapid.IntRange(0, 7).Draw(t, label+".has."+dn) {
		case 0:
			// missing
		default:
			p.Dims = append(p.Dims, KV{dn, DimVal(t, dn, label+".d."+dn)})
		}
	}
	if cfg.AllowMixed && rapid.IntRange(0, 3).Draw(t, label+".mixed") == 0 {
		p.Dims = append(p.Dims, KV{MixedDim, DimVal(t, MixedDim, label+".dm")})
	}
	names := append(append([]string(nil), ValNames...), WeightVal)
	for _, vn := range names {
		switch rapid.IntRange(0, 9).Draw(t, label+".hasv."+vn) {
		case 0, 1:
			// missing
		case 2:
			if cfg.AllowMixed {
				p.Vals = append(p.Vals, KV{vn, rapid.SampledFrom([]Val{StrV("7"), BoolV(true), {K: "f32", F: 2.5}, {K: "i64", I: 3}}).Draw(t, label+".junk."+vn)})
			}
		case 3:
			if cfg.AllowArrays {
				n := rapid.IntRange(1, 4).Draw(t, label+".arrn."+vn)
				arr := make([]float64, n)
				for i := range arr {
					arr[i] = float64(rapid.IntRange(0, 5).Draw(t, fmt.Sprintf("%s.arr.%s.%d", label, vn, i)))
				}
				p.Vals = append(p.Vals, KV{vn, Val{K: rapid.SampledFrom([]string{"ints", "floats"}).Draw(t, label+".arrk."+vn), L: arr}})
			} else {
				p.Vals = append(p.Vals, KV{vn, IntV(int64(rapid.IntRange(-3, 9).Draw(t, label+".vi."+vn)))})
			}
		case 4, 5, 6:
			p.Vals = append(p.Vals, KV{vn, IntV(int64(rapid.IntRange(-3, 9).Draw(t, label+".vi."+vn)))})
		default:
			p.Vals = append(p.Vals, KV{vn, FloatV(float64(rapid.IntRange(-8, 40).Draw(t, label+".vf."+vn)) / 4)})
		}
	}
	return p
}

func resSet(s *Schema) []int64 {
	seen := map[int64]bool{}
	var out []int64
	for _, t := range s.Tables {
		if t.ResNS > 0 && !seen[t.ResNS] {
			seen[t.ResNS] = true
			out = append(out, t.ResNS)
		}
	}
	return out
}

// FieldsCollide reports whether a field list falls into the listed finding
// same-expr-text-fields (two fields with the same expression text, or AVG(x)
// next to WAVG(x, w)).
func FieldsCollide(fields []FieldDef) bool { return avgCollision(fields) }
