package h

import (
	"fmt"
	"strings"
	"time"
)

// QField is one entry of a SELECT list.
type QField struct {
	Name string `json:"name,omitempty"`
	Ex   *Ex    `json:"ex,omitempty"` // nil: plain column reference by Name
	Star bool   `json:"star,omitempty"`
}

// OrderKey is one ORDER BY key.
type OrderKey struct {
	Field string `json:"field"`
	Desc  bool   `json:"desc,omitempty"`
}

// TimeSpec is an ASOF/UNTIL bound: absolute (unix nanos) or relative to now.
type TimeSpec struct {
	Abs   int64 `json:"abs,omitempty"`
	Rel   int64 `json:"rel,omitempty"` // negative nanoseconds
	IsRel bool  `json:"is_rel,omitempty"`
}

func (ts *TimeSpec) SQL() string {
	if ts.IsRel {
		return "'" + durSQL(ts.Rel) + "'"
	}
	return "'" + time.Unix(0, ts.Abs).UTC().Format(time.RFC3339Nano) + "'"
}

func durSQL(ns int64) string {
	d := time.Duration(ns)
	return d.String()
}

// InSub is "dim IN (SELECT dim FROM ...)".
type InSub struct {
	Dim string `json:"dim"`
	Sub *Query `json:"sub"`
}

// Query is a generated SELECT.
type Query struct {
	Fields    []QField   `json:"fields"`
	From      string     `json:"from,omitempty"`
	FromSub   *Query     `json:"from_sub,omitempty"`
	AsOf      *TimeSpec  `json:"asof,omitempty"`
	Until     *TimeSpec  `json:"until,omitempty"`
	Where     *Pred      `json:"where,omitempty"`
	WhereIn   *InSub     `json:"where_in,omitempty"`
	GroupBy   []string   `json:"group_by,omitempty"`
	GroupEx   []GroupEx  `json:"group_ex,omitempty"` // expression dims: <expr> AS <name>
	GroupStar bool       `json:"group_star,omitempty"`
	GroupNone bool       `json:"group_none,omitempty"` // GROUP BY _
	PeriodNS  int64      `json:"period,omitempty"`
	StrideNS  int64      `json:"stride,omitempty"`
	Crosstab  []string   `json:"crosstab,omitempty"`
	CrosstabT bool       `json:"crosstab_t,omitempty"`
	Having    *Ex        `json:"having,omitempty"`
	OrderBy   []OrderKey `json:"order_by,omitempty"`
	Limit     int        `json:"limit,omitempty"`
	Offset    int        `json:"offset,omitempty"`
}

// GroupEx is a GROUP BY expression with an alias.
type GroupEx struct {
	Name string `json:"name"`
	SQL  string `json:"sql"`
}

// SQL renders the query.
func (q *Query) SQL() string {
	var sb strings.Builder
	sb.WriteString("SELECT ")
	for i, f := range q.Fields {
		if i > 0 {
			sb.WriteString(", ")
		}
		switch {
		case f.Star:
			sb.WriteString("*")
		case f.Ex == nil:
			sb.WriteString(f.Name)
		default:
			sb.WriteString(f.Ex.SQL() + " AS " + f.Name)
		}
	}
	sb.WriteString(" FROM ")
	if q.FromSub != nil {
		sb.WriteString("(" + q.FromSub.SQL() + ")")
	} else {
		sb.WriteString(q.From)
	}
	if q.AsOf != nil {
		sb.WriteString(" ASOF " + q.AsOf.SQL())
	}
	if q.Until != nil {
		sb.WriteString(" UNTIL " + q.Until.SQL())
	}
	var conds []string
	if q.Where != nil {
		conds = append(conds, q.Where.SQL())
	}
	if q.WhereIn != nil {
		conds = append(conds, q.WhereIn.Dim+" IN ("+q.WhereIn.Sub.SQL()+")")
	}
	if len(conds) > 0 {
		sb.WriteString(" WHERE " + strings.Join(conds, " AND "))
	}
	var gb []string
	if q.GroupStar {
		gb = append(gb, "*")
	}
	if q.GroupNone {
		gb = append(gb, "_")
	}
	gb = append(gb, q.GroupBy...)
	for _, ge := range q.GroupEx {
		gb = append(gb, ge.SQL+" AS "+ge.Name)
	}
	if len(q.Crosstab) > 0 {
		fn := "CROSSTAB"
		if q.CrosstabT {
			fn = "CROSSTABT"
		}
		gb = append(gb, fn+"("+strings.Join(q.Crosstab, ", ")+")")
	}
	if q.PeriodNS > 0 {
		gb = append(gb, fmt.Sprintf("period(%s)", time.Duration(q.PeriodNS)))
	}
	if q.StrideNS > 0 {
		gb = append(gb, fmt.Sprintf("stride(%s)", time.Duration(q.StrideNS)))
	}
	if len(gb) > 0 {
		sb.WriteString(" GROUP BY " + strings.Join(gb, ", "))
	}
	if q.Having != nil {
		sb.WriteString(" HAVING " + strings.TrimSuffix(strings.TrimPrefix(q.Having.SQL(), "("), ")"))
	}
	if len(q.OrderBy) > 0 {
		parts := make([]string, len(q.OrderBy))
		for i, o := range q.OrderBy {
			parts[i] = o.Field
			if o.Desc {
				parts[i] += " DESC"
			}
		}
		sb.WriteString(" ORDER BY " + strings.Join(parts, ", "))
	}
	if q.Limit > 0 || q.Offset > 0 {
		lim := q.Limit
		if lim <= 0 {
			lim = 1000000
		}
		if q.Offset > 0 {
			sb.WriteString(fmt.Sprintf(" LIMIT %d, %d", q.Offset, lim))
		} else {
			sb.WriteString(fmt.Sprintf(" LIMIT %d", lim))
		}
	}
	return sb.String()
}

// Regroups reports whether the query changes grouping/period/fields relative
// to a plain SELECT *.
func (q *Query) Regroups() bool {
	return len(q.GroupBy) > 0 || len(q.GroupEx) > 0 || q.GroupNone || q.PeriodNS > 0 || q.StrideNS > 0 || len(q.Crosstab) > 0 || q.Having != nil || q.FromSub != nil
}
