package h

import (
	"sort"
	"strings"
)

// RoundUp / RoundDown round a unix-nano time on the zero-time grid.
func RoundUp(ts, res int64) int64 { return PeriodEnd(ts, res) }
func RoundDown(ts, res int64) int64 {
	up := PeriodEnd(ts, res)
	if up == ts {
		return ts
	}
	return up - res
}

// DefaultWindow returns the (asOf, until] window of an unbounded query.
func DefaultWindow(now, res, retention int64) (int64, int64) {
	until := RoundUp(now, res)
	asOf := RoundUp(until-retention, res)
	return asOf, until
}

// RefQ describes a grouped query for the reference evaluator.
type RefQ struct {
	Fields  []QField // names of table fields, "_points", or derived expressions over REFs
	GroupBy []string // nil with KeepKey: keep the table key
	KeepKey bool
	Period  int64 // 0: native
	AsOf    int64 // exclusive
	Until   int64 // inclusive, also the bucket anchor
}

func projectKey(tableKey map[string]Val, groupBy []string) string {
	var names []string
	for _, n := range groupBy {
		if v, ok := tableKey[n]; ok && v.K != "nil" {
			names = append(names, n)
		}
	}
	sort.Strings(names)
	parts := make([]string, 0, len(names))
	for _, n := range names {
		parts = append(parts, n+"="+tableKey[n].Canon())
	}
	return strings.Join(parts, ";")
}

// tableKeyDims returns the dims that make up the table's row key for a point.
func tableKeyDims(t *TableDef, dims map[string]Val) map[string]Val {
	out := map[string]Val{}
	if t.GroupAll {
		for n, v := range dims {
			out[n] = v
		}
		return out
	}
	for _, n := range t.GroupBy {
		if v, ok := dims[n]; ok && v.K != "nil" {
			out[n] = v
		}
	}
	return out
}

// Query evaluates a grouped/windowed query over the accepted sub-points of a
// table, straight from the raw points.
func (sem *TableSem) Query(pts []SubPoint, q *RefQ) []RefRow {
	res := sem.Def.ResNS
	P := q.Period
	if P == 0 {
		P = res
	}
	if window := q.Until - q.AsOf; P > window {
		P = window
	}
	type gk struct {
		key string
		ts  int64
	}
	groups := map[gk][]SubPoint{}
	for _, sp := range pts {
		e := PeriodEnd(sp.TS, res)
		if e <= q.AsOf || e > q.Until || P <= 0 {
			continue
		}
		T := q.Until - ((q.Until-e)/P)*P
		tk := tableKeyDims(sem.Def, sp.Dims)
		var key string
		if q.KeepKey {
			key = KeyOf(sem.Def, sp.Dims)
		} else {
			key = projectKey(tk, q.GroupBy)
		}
		k := gk{key, T}
		groups[k] = append(groups[k], sp)
	}
	fm := map[string]*Ex{"_points": {Op: "SUM", F: "_point"}}
	for _, f := range sem.Fields {
		fm[f.Name] = f.Ex
	}
	var rows []RefRow
	for k, g := range groups {
		row := RefRow{TS: k.ts, Key: k.key, Vals: map[string]float64{}}
		anySet := false
		for _, f := range q.Fields {
			var ex *Ex
			if f.Ex != nil {
				ex = f.Ex
			} else {
				ex = fm[f.Name]
			}
			if ex == nil {
				continue
			}
			v, ok := EvalEx(ex, g, fm)
			if !ok {
				v = 0
			} else {
				anySet = true
			}
			row.Vals[f.Name] = v
		}
		if anySet {
			rows = append(rows, row)
		}
	}
	SortRows(rows)
	return rows
}
