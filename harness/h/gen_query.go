package h

import (
	"fmt"

	"pgregory.net/rapid"
)

// QCfg selects the query sub-grammar.
type QCfg struct {
	Window    bool // ASOF / UNTIL
	Where     bool
	Group     bool // GROUP BY dims / _ / period
	Stride    bool
	Crosstab  bool
	Having    bool
	Order     bool
	Limit     bool
	Derived   bool // derived fields over table fields
	Shift     bool
	SubQuery  bool // FROM (subquery) and dim IN (subquery)
	GroupExpr bool // GROUP BY <function of dims> AS name
	Combo     bool // bias towards GROUP BY + HAVING + ORDER BY + LIMIT together
	ConstOK   bool // constants in derived fields / HAVING (gap rows: listed finding)
	DataSpanP int  // number of coarsest periods the data spans (for window bounds)
}

// FullQ is the whole grammar (differential / metamorphic checks).
func FullQ(span int) *QCfg {
	return &QCfg{Window: true, Where: true, Group: true, Stride: true, Crosstab: true, Having: true, Order: true, Limit: true, Derived: true, Shift: true, SubQuery: true, ConstOK: true, GroupExpr: true, Combo: true, DataSpanP: span}
}

func refEx(name string) *Ex { return &Ex{Op: "REF", F: name} }

// ResolvedSQL renders an expression with references to table fields replaced
// by the fields' expressions (the text zenodb matches columns by).
func ResolvedSQL(e *Ex, fields map[string]*Ex) string {
	if e.Op == "REF" {
		if f, ok := fields[e.F]; ok {
			return f.SQL()
		}
		if e.F == "_points" {
			return "SUM(_point)"
		}
		return "SUM(" + e.F + ")"
	}
	if len(e.Args) == 2 && e.Op != "IF" {
		return "(" + ResolvedSQL(e.Args[0], fields) + " " + e.Op + " " + ResolvedSQL(e.Args[1], fields) + ")"
	}
	return e.SQL()
}

// genDerived draws a value expression over references to table fields.
func genDerived(t *rapid.T, qc *QCfg, names []string, depth int, label string) *Ex {
	if depth <= 0 || (depth < 2 && rapid.IntRange(0, 2).Draw(t, label+".leaf") == 0) {
		return refEx(rapid.SampledFrom(names).Draw(t, label+".ref"))
	}
	op := rapid.SampledFrom([]string{"+", "-", "*", "/"}).Draw(t, label+".op")
	l := genDerived(t, qc, names, depth-1, label+".l")
	var r *Ex
	if qc.ConstOK && rapid.IntRange(0, 3).Draw(t, label+".c") == 0 {
		r = &Ex{Op: "CONST", Num: float64(rapid.IntRange(1, 4).Draw(t, label+".n"))}
	} else {
		r = genDerived(t, qc, names, depth-1, label+".r")
	}
	return &Ex{Op: op, Args: []*Ex{l, r}}
}

// GenHaving draws a HAVING condition over field references.
func GenHaving(t *rapid.T, qc *QCfg, names []string, depth int, label string) *Ex {
	if depth > 0 && rapid.IntRange(0, 3).Draw(t, label+".k") == 0 {
		op := rapid.SampledFrom([]string{"AND", "OR"}).Draw(t, label+".bop")
		return &Ex{Op: op, Args: []*Ex{GenHaving(t, qc, names, depth-1, label+".l"), GenHaving(t, qc, names, depth-1, label+".r")}}
	}
	op := rapid.SampledFrom([]string{"<", "<=", "=", "<>", ">=", ">"}).Draw(t, label+".cmp")
	l := genDerived(t, qc, names, 1, label+".cl")
	var r *Ex
	if rapid.IntRange(0, 2).Draw(t, label+".rc") > 0 {
		r = &Ex{Op: "CONST", Num: float64(rapid.IntRange(-1, 6).Draw(t, label+".num"))}
	} else {
		r = genDerived(t, qc, names, 1, label+".cr")
	}
	return &Ex{Op: op, Args: []*Ex{l, r}}
}

// tableDims returns the dimensions stored in a table's row keys.
func tableDims(sem *TableSem) []string {
	if sem.Def.GroupAll {
		return append(append([]string(nil), DimNames...), MixedDim)
	}
	return append([]string(nil), sem.Def.GroupBy...)
}

// predDims restricts predicate generation to a set of dims.
func genPredOver(t *rapid.T, dims []string, depth int, label string) *Pred {
	for tries := 0; tries < 20; tries++ {
		p := GenPred(t, depth, fmt.Sprintf("%s.%d", label, tries))
		used := map[string]bool{}
		p.DimNames(used)
		ok := true
		for d := range used {
			found := false
			for _, x := range dims {
				if x == d {
					found = true
				}
			}
			if !found {
				ok = false
			}
		}
		if ok {
			return p
		}
	}
	return &Pred{Op: "TRUE"}
}

// GenQuery draws a query over a table of the schema.
func GenQuery(t *rapid.T, qc *QCfg, s *Schema, table string, label string) *Query {
	sem := SemFor(s, table)
	res := sem.Def.ResNS
	q := &Query{From: table}
	names := []string{"_points"}
	opNames := []string{"_points"} // usable as operands of arithmetic (a top-level BOUNDED is not)
	var pctFields []string
	for _, f := range sem.Fields {
		names = append(names, f.Name)
		if f.Ex.Op != "BOUNDEDTOP" && f.Ex.Op != "PCT" {
			opNames = append(opNames, f.Name)
		}
		if f.Ex.Op == "PCT" {
			pctFields = append(pctFields, f.Name)
		}
	}
	dims := []string{}
	for _, d := range tableDims(sem) {
		if d != MixedDim {
			dims = append(dims, d)
		}
	}
	// SELECT list
	switch rapid.IntRange(0, 4).Draw(t, label+".sel") {
	case 0, 1:
		q.Fields = []QField{{Star: true}}
	default:
		n := rapid.IntRange(1, 3).Draw(t, label+".nsel")
		seen := map[string]bool{}
		for i := 0; i < n; i++ {
			nm := rapid.SampledFrom(names).Draw(t, fmt.Sprintf("%s.sel%d", label, i))
			if !seen[nm] {
				seen[nm] = true
				q.Fields = append(q.Fields, QField{Name: nm})
			}
		}
		if rapid.IntRange(0, 3).Draw(t, label+".star2") == 0 {
			q.Fields = append(q.Fields, QField{Star: true})
		}
	}
	if qc.Derived && rapid.IntRange(0, 2).Draw(t, label+".der") == 0 {
		n := rapid.IntRange(1, 2).Draw(t, label+".nder")
		for i := 0; i < n; i++ {
			var ex *Ex
			switch {
			case qc.Shift && rapid.IntRange(0, 3).Draw(t, fmt.Sprintf("%s.shk%d", label, i)) == 0:
				ex = &Ex{Op: "SHIFT", Off: -res * int64(rapid.IntRange(1, 3).Draw(t, fmt.Sprintf("%s.sho%d", label, i))), Args: []*Ex{refEx(rapid.SampledFrom(names).Draw(t, fmt.Sprintf("%s.shr%d", label, i)))}}
			case len(pctFields) > 0 && rapid.IntRange(0, 2).Draw(t, fmt.Sprintf("%s.pk%d", label, i)) == 0:
				ex = &Ex{Op: "PCTREF", F: rapid.SampledFrom(pctFields).Draw(t, fmt.Sprintf("%s.pf%d", label, i)), Pct: float64(rapid.SampledFrom([]int{5, 50, 95}).Draw(t, fmt.Sprintf("%s.pp%d", label, i)))}
			default:
				ex = genDerived(t, qc, opNames, 2, fmt.Sprintf("%s.d%d", label, i))
			}
			// a derived field whose resolved text equals a table field's or another
			// derived field's is the listed finding same-expr-text-fields
			fm := map[string]*Ex{}
			texts := map[string]bool{"SUM(_point)": true}
			for _, f := range sem.Fields {
				fm[f.Name] = f.Ex
				texts[f.Ex.SQL()] = true
			}
			for _, f := range q.Fields {
				if f.Ex != nil {
					texts[ResolvedSQL(f.Ex, fm)] = true
				}
			}
			if ex.Op != "SHIFT" && ex.Op != "PCTREF" && texts[ResolvedSQL(ex, fm)] {
				continue
			}
			q.Fields = append(q.Fields, QField{Name: fmt.Sprintf("q%d", i), Ex: ex})
		}
	}
	// time window
	if qc.Window && rapid.IntRange(0, 2).Draw(t, label+".win") == 0 {
		span := int64(qc.DataSpanP+2) * s.MaxRes()
		bound := func(l string) *TimeSpec {
			off := rapid.Int64Range(-res*3, span).Draw(t, l+".off")
			switch rapid.IntRange(0, 2).Draw(t, l+".kind") {
			case 0:
				return &TimeSpec{Abs: PeriodEnd(BaseTS+off, res)}
			case 1:
				return &TimeSpec{Abs: BaseTS + off}
			}
			// relative to now (now ~ newest point): a negative duration
			return &TimeSpec{IsRel: true, Rel: -(off/1e6 + 1) * 1e6}
		}
		// the grammar has ASOF x [UNTIL y]; UNTIL alone does not parse
		switch rapid.IntRange(0, 1).Draw(t, label+".wk") {
		case 0:
			q.AsOf = bound(label + ".asof")
		default:
			q.AsOf = bound(label + ".asof")
			q.Until = bound(label + ".until")
		}
	}
	if qc.Where && len(dims) > 0 && rapid.IntRange(0, 2).Draw(t, label+".where") == 0 {
		q.Where = genPredOver(t, dims, 1, label+".w")
	}
	if qc.Group {
		switch rapid.IntRange(0, 5).Draw(t, label+".grp") {
		case 0:
			q.GroupStar = true
		case 1:
			q.GroupNone = true
		case 2, 3:
			if len(dims) > 0 {
				n := rapid.IntRange(1, len(dims)).Draw(t, label+".ngb")
				perm := rapid.Permutation(append([]string(nil), dims...)).Draw(t, label+".gbp")
				q.GroupBy = append([]string(nil), perm[:n]...)
			}
		}
		if qc.GroupExpr && rapid.IntRange(0, 5).Draw(t, label+".gex") == 0 {
			var sdims []string
			for _, d := range dims {
				if d == "da" || d == "dc" {
					sdims = append(sdims, d)
				}
			}
			if len(sdims) > 0 {
				d := rapid.SampledFrom(sdims).Draw(t, label+".gexd")
				switch rapid.IntRange(0, 2).Draw(t, label+".gexk") {
				case 0:
					q.GroupEx = append(q.GroupEx, GroupEx{Name: "g0", SQL: "SUBSTR(" + d + ", 0, 1)"})
				case 1:
					q.GroupEx = append(q.GroupEx, GroupEx{Name: "g1", SQL: "CONCAT('-', " + d + ", " + dims[0] + ")"})
				default:
					q.GroupEx = append(q.GroupEx, GroupEx{Name: "g2", SQL: "LEN(" + d + ")"})
				}
				q.GroupStar, q.GroupNone = false, false
				// the plain dim may or may not stay in the list
				if rapid.Bool().Draw(t, label+".gexdrop") {
					var keep []string
					for _, g := range q.GroupBy {
						if g != d {
							keep = append(keep, g)
						}
					}
					q.GroupBy = keep
				}
			}
		}
		if rapid.IntRange(0, 2).Draw(t, label+".per") == 0 {
			q.PeriodNS = res * int64(rapid.SampledFrom([]int{1, 2, 3, 5, 60}).Draw(t, label+".pm"))
		}
		if qc.Stride && rapid.IntRange(0, 6).Draw(t, label+".str") == 0 {
			q.StrideNS = res * int64(rapid.SampledFrom([]int{2, 4}).Draw(t, label+".sm"))
		}
		if qc.Crosstab && len(dims) > 0 && rapid.IntRange(0, 6).Draw(t, label+".ct") == 0 {
			// crosstab needs string-valued dims present on every row
			var sdims []string
			for _, d := range dims {
				if d == "da" || d == "dc" {
					sdims = append(sdims, d)
				}
			}
			if len(sdims) > 0 {
				q.Crosstab = []string{rapid.SampledFrom(sdims).Draw(t, label+".ctd")}
				q.CrosstabT = rapid.Bool().Draw(t, label+".ctt")
			}
		}
	}
	if qc.Having && rapid.IntRange(0, 3).Draw(t, label+".hav") == 0 {
		q.Having = GenHaving(t, qc, opNames, 1, label+".h")
	}
	if qc.Order && rapid.IntRange(0, 2).Draw(t, label+".ord") == 0 {
		cands := append([]string{"_time"}, dims...)
		for _, f := range q.Fields {
			if !f.Star && f.Name != "" {
				cands = append(cands, f.Name)
			}
		}
		n := rapid.IntRange(1, 3).Draw(t, label+".nord")
		for i := 0; i < n; i++ {
			q.OrderBy = append(q.OrderBy, OrderKey{Field: rapid.SampledFrom(cands).Draw(t, fmt.Sprintf("%s.ok%d", label, i)), Desc: rapid.Bool().Draw(t, fmt.Sprintf("%s.od%d", label, i))})
		}
	}
	if qc.Limit && rapid.IntRange(0, 4).Draw(t, label+".lim") == 0 {
		q.Limit = rapid.IntRange(1, 8).Draw(t, label+".limit")
		if rapid.Bool().Draw(t, label+".hasoff") {
			q.Offset = rapid.IntRange(1, 5).Draw(t, label+".offset")
		}
	}
	if qc.Combo && qc.Having && qc.Order && qc.Limit && (len(q.GroupBy) > 0 || len(q.GroupEx) > 0) && rapid.IntRange(0, 4).Draw(t, label+".combo") == 0 {
		if q.Having == nil {
			q.Having = GenHaving(t, qc, opNames, 0, label+".ch")
		}
		if len(q.OrderBy) == 0 {
			cands := []string{"_time"}
			for _, f := range q.Fields {
				if !f.Star && f.Name != "" {
					cands = append(cands, f.Name)
				}
			}
			cands = append(cands, q.GroupBy...)
			q.OrderBy = []OrderKey{{Field: rapid.SampledFrom(cands).Draw(t, label+".cok"), Desc: rapid.Bool().Draw(t, label+".cod")}}
		}
		if q.Limit == 0 {
			q.Limit = rapid.IntRange(1, 4).Draw(t, label+".climit")
		}
	}
	if qc.SubQuery && rapid.IntRange(0, 7).Draw(t, label+".sub") == 0 && len(dims) > 0 {
		inner := &QCfg{Where: true, Group: true, Having: qc.Having, ConstOK: qc.ConstOK, DataSpanP: qc.DataSpanP}
		if rapid.Bool().Draw(t, label+".subkind") {
			// dim IN (SELECT dim FROM table ...)
			d := rapid.SampledFrom(dims).Draw(t, label+".indim")
			sub := GenQuery(t, inner, s, table, label+".in")
			sub.Fields = []QField{{Name: d}}
			sub.GroupBy = []string{d}
			sub.GroupStar, sub.GroupNone, sub.Crosstab = false, false, nil
			q.WhereIn = &InSub{Dim: d, Sub: sub}
		} else {
			sub := GenQuery(t, inner, s, table, label+".from")
			sub.Fields = []QField{{Star: true}}
			q.FromSub = sub
			q.From = ""
		}
	}
	return q
}

// TotalOrder reports whether ORDER BY fixes the row order only up to ties; the
// differential checks always compare as multisets and additionally check
// sortedness where useful.
func (q *Query) HasLimit() bool { return q.Limit > 0 || q.Offset > 0 }
