package h

import (
	"fmt"
	"math"
	"math/big"
	"sort"
	"strings"

	hdrhistogram "github.com/HdrHistogram/hdrhistogram-go"
)

// secondsToUnixEpoch is the number of seconds between 0001-01-01 and 1970-01-01.
const secondsToUnixEpoch = 62135596800

// PeriodEnd returns the end of the period a timestamp belongs to: the
// smallest multiple of res (counted from the zero time 0001-01-01T00:00:00Z,
// which is the grid zenodb's documentation and tests use) that is >= ts.
// Computed with big integers, independently of time.Round.
func PeriodEnd(tsUnixNano int64, res int64) int64 {
	abs := new(big.Int).Mul(big.NewInt(secondsToUnixEpoch), big.NewInt(1e9))
	abs.Add(abs, big.NewInt(tsUnixNano))
	r := big.NewInt(res)
	q, m := new(big.Int).DivMod(abs, r, new(big.Int))
	if m.Sign() != 0 {
		q.Add(q, big.NewInt(1))
	}
	out := new(big.Int).Mul(q, r)
	out.Sub(out, new(big.Int).Mul(big.NewInt(secondsToUnixEpoch), big.NewInt(1e9)))
	return out.Int64()
}

// SubPoint is one accepted sample set of a point.
type SubPoint struct {
	TS   int64
	Dims map[string]Val
	Vals map[string]float64
}

func (sp *SubPoint) dim(n string) (Val, bool) {
	v, ok := sp.Dims[n]
	return v, ok
}

// SubPointsOf splits a point into the sub-points a table stores. Scalars of
// type int/float64 are samples, everything else is ignored. With arrayRule
// the pinned 2n-1 behaviour for array samples is mirrored (first element with
// the scalars, every further element twice as its own sub-point); without it
// arrays are treated as unsupported and the caller must not generate them.
func SubPointsOf(p Point, arrayRule bool) []SubPoint {
	dims := make(map[string]Val, len(p.Dims))
	for _, kv := range p.Dims {
		dims[kv.N] = kv.V
	}
	main := map[string]float64{}
	var extra []SubPoint
	for _, kv := range p.Vals {
		switch kv.V.K {
		case "int":
			main[kv.N] = float64(kv.V.I)
		case "float":
			main[kv.N] = kv.V.F
		case "ints", "floats":
			if !arrayRule || len(kv.V.L) == 0 {
				continue
			}
			main[kv.N] = kv.V.L[0]
			for rep := 0; rep < 2; rep++ {
				for _, x := range kv.V.L[1:] {
					extra = append(extra, SubPoint{TS: p.TS, Dims: dims, Vals: map[string]float64{kv.N: x}})
				}
			}
		}
	}
	var out []SubPoint
	if len(main) > 0 {
		out = append(out, SubPoint{TS: p.TS, Dims: dims, Vals: main})
	}
	out = append(out, extra...)
	return out
}

// EvalEx evaluates a field expression over the multiset of sub-points of one
// (key, period). It returns the value and whether the field is set.
func EvalEx(e *Ex, pts []SubPoint, fields map[string]*Ex) (float64, bool) {
	switch e.Op {
	case "CONST":
		return e.Num, true
	case "REF":
		if f, ok := fields[e.F]; ok {
			return EvalEx(f, pts, fields)
		}
		return EvalEx(&Ex{Op: "SUM", F: e.F}, pts, fields)
	case "SUM", "MIN", "MAX", "COUNT", "AVG", "WAVG":
		var sum, wsum, mn, mx float64
		n := 0
		for i := range pts {
			v, ok := pts[i].Vals[e.F]
			if e.F == "_point" {
				v, ok = 1, true
			}
			if !ok {
				continue
			}
			if e.Bnd && (v < e.Lo || v > e.Hi) {
				continue
			}
			w := 1.0
			if e.Op == "WAVG" {
				w = pts[i].Vals[e.W]
			}
			if n == 0 || v < mn {
				mn = v
			}
			if n == 0 || v > mx {
				mx = v
			}
			n++
			if e.Op == "AVG" || e.Op == "WAVG" {
				sum += v * w
				wsum += w
			} else {
				sum += v
			}
		}
		if n == 0 {
			return 0, false
		}
		switch e.Op {
		case "SUM":
			return sum, true
		case "MIN":
			return mn, true
		case "MAX":
			return mx, true
		case "COUNT":
			return float64(n), true
		}
		if wsum == 0 {
			return 0, true
		}
		return sum / wsum, true
	case "PCT":
		scale := math.Pow10(e.Prec)
		hp := e.Prec
		if hp < 1 {
			hp = 1
		} else if hp > 5 {
			hp = 5
		}
		hist := hdrhistogram.New(int64(e.Lo*scale), int64(e.Hi*scale), hp)
		n := 0
		for i := range pts {
			v, ok := pts[i].Vals[e.F]
			if !ok || v < e.Lo || v > e.Hi {
				continue
			}
			hist.RecordValue(int64(v * scale))
			n++
		}
		if n == 0 {
			return 0, false
		}
		return float64(hist.ValueAtQuantile(e.Pct)) / scale, true
	case "PCTOPT":
		// another percentile of the wrapped percentile's histogram
		in := e.Args[0]
		for in.Op == "PCTOPT" {
			in = in.Args[0]
		}
		cp := *in
		cp.Pct = e.Pct
		return EvalEx(&cp, pts, fields)
	case "IF":
		sub := make([]SubPoint, 0, len(pts))
		for i := range pts {
			if e.Cond.Eval(pts[i].dim) {
				sub = append(sub, pts[i])
			}
		}
		return EvalEx(e.Args[0], sub, fields)
	case "LN", "LOG2", "LOG10":
		v, ok := EvalEx(e.Args[0], pts, fields)
		if !ok {
			return 0, false
		}
		switch e.Op {
		case "LN":
			return math.Log(v), true
		case "LOG2":
			return math.Log2(v), true
		}
		return math.Log10(v), true
	case "BOUNDEDTOP":
		v, ok := EvalEx(e.Args[0], pts, fields)
		if !ok || v < e.Lo || v > e.Hi {
			return 0, false
		}
		return v, true
	case "SHIFT":
		return EvalEx(e.Args[0], pts, fields)
	}
	l, lok := EvalEx(e.Args[0], pts, fields)
	r, rok := EvalEx(e.Args[1], pts, fields)
	if !lok && !rok {
		return 0, false
	}
	b2f := func(b bool) float64 {
		if b {
			return 1
		}
		return 0
	}
	switch e.Op {
	case "+":
		return l + r, true
	case "-":
		return l - r, true
	case "*":
		return l * r, true
	case "/":
		if r == 0 {
			if l == 0 {
				return 0, true
			}
			return math.MaxFloat64, true
		}
		return l / r, true
	case "<":
		return b2f(l < r), true
	case "<=":
		return b2f(l <= r), true
	case "=":
		return b2f(l == r), true
	case "<>":
		return b2f(l != r), true
	case ">=":
		return b2f(l >= r), true
	case ">":
		return b2f(l > r), true
	case "AND":
		return b2f(l > 0 && r > 0), true
	case "OR":
		return b2f(l > 0 || r > 0), true
	}
	panic("unknown op " + e.Op)
}

// RefRow is one expected (or observed) flat row.
type RefRow struct {
	TS     int64                  `json:"ts"`
	Key    string                 `json:"key"`
	Vals   map[string]float64     `json:"vals"`
	KeyMap map[string]interface{} `json:"-"` // decoded key of an observed row
}

func (r RefRow) String() string {
	names := make([]string, 0, len(r.Vals))
	for n := range r.Vals {
		names = append(names, n)
	}
	sort.Strings(names)
	parts := make([]string, 0, len(names))
	for _, n := range names {
		parts = append(parts, fmt.Sprintf("%s=%v", n, r.Vals[n]))
	}
	return fmt.Sprintf("{ts=%d key=[%s] %s}", r.TS, r.Key, strings.Join(parts, " "))
}

// KeyOf computes the canonical group key of a sub-point for a table.
func KeyOf(t *TableDef, dims map[string]Val) string {
	var names []string
	if t.GroupAll {
		for n := range dims {
			names = append(names, n)
		}
	} else {
		for _, n := range t.GroupBy {
			if v, ok := dims[n]; ok && v.K != "nil" {
				names = append(names, n)
			}
		}
	}
	sort.Strings(names)
	parts := make([]string, 0, len(names))
	for _, n := range names {
		parts = append(parts, n+"="+dims[n].Canon())
	}
	return strings.Join(parts, ";")
}

// TableSem is what the reference needs to know about a table: its effective
// WHERE (including the parent's for a view), fields and grouping.
type TableSem struct {
	Def    *TableDef
	Wheres []*Pred
	Fields []FieldDef
}

// SemFor resolves views against their parent.
func SemFor(s *Schema, name string) *TableSem {
	t := s.Table(name)
	sem := &TableSem{Def: t}
	if t.Where != nil {
		sem.Wheres = append(sem.Wheres, t.Where)
	}
	sem.Fields = append(sem.Fields, t.Fields...)
	if t.ViewOf != "" {
		p := s.Table(t.ViewOf)
		if p.Where != nil {
			sem.Wheres = append(sem.Wheres, p.Where)
		}
		d := *t
		if len(d.GroupBy) == 0 && !d.GroupAll {
			d.GroupBy = p.GroupBy
			d.GroupAll = p.GroupAll
		}
		if d.ResNS == 0 {
			d.ResNS = p.ResNS
		}
		d.Stream = p.Stream
		sem.Def = &d
		if t.Star {
			sem.Fields = append(append([]FieldDef{}, p.Fields...), t.Fields...)
		}
	}
	return sem
}

// Accepts reports whether the table's WHERE accepts the raw dims.
func (sem *TableSem) Accepts(dims map[string]Val) bool {
	get := func(n string) (Val, bool) { v, ok := dims[n]; return v, ok }
	for _, w := range sem.Wheres {
		if !w.Eval(get) {
			return false
		}
	}
	return true
}

// Aggregate computes the native-resolution rows of a table for the given
// sub-points (already filtered by acceptance).
func (sem *TableSem) Aggregate(pts []SubPoint) []RefRow {
	type gk struct {
		key string
		ts  int64
	}
	groups := map[gk][]SubPoint{}
	for _, sp := range pts {
		k := gk{KeyOf(sem.Def, sp.Dims), PeriodEnd(sp.TS, sem.Def.ResNS)}
		groups[k] = append(groups[k], sp)
	}
	fm := map[string]*Ex{}
	for _, f := range sem.Fields {
		fm[f.Name] = f.Ex
	}
	rows := make([]RefRow, 0, len(groups))
	for k, g := range groups {
		row := RefRow{TS: k.ts, Key: k.key, Vals: map[string]float64{"_points": float64(len(g))}}
		for _, f := range sem.Fields {
			v, ok := EvalEx(f.Ex, g, fm)
			if !ok {
				v = 0
			}
			row.Vals[f.Name] = v
		}
		rows = append(rows, row)
	}
	SortRows(rows)
	return rows
}

// SortRows orders rows canonically (key, ts).
func SortRows(rows []RefRow) {
	sort.Slice(rows, func(i, j int) bool {
		if rows[i].Key != rows[j].Key {
			return rows[i].Key < rows[j].Key
		}
		if rows[i].TS != rows[j].TS {
			return rows[i].TS < rows[j].TS
		}
		return rows[i].String() < rows[j].String()
	})
}

// FloatEq compares with relative tolerance 1e-9 (NaN equals NaN, infinities by sign).
func FloatEq(a, b float64) bool {
	if math.IsNaN(a) || math.IsNaN(b) {
		return math.IsNaN(a) && math.IsNaN(b)
	}
	if math.IsInf(a, 0) || math.IsInf(b, 0) {
		return a == b
	}
	if a == b {
		return true
	}
	d := math.Abs(a - b)
	m := math.Max(math.Abs(a), math.Abs(b))
	return d <= 1e-9*m || d <= 1e-12
}

// DiffRows compares two canonical row sets as multisets over the given field
// names (nil: all fields of want). It returns "" when equal.
func DiffRows(want, got []RefRow, fields []string) string {
	w := append([]RefRow(nil), want...)
	g := append([]RefRow(nil), got...)
	SortRows(w)
	SortRows(g)
	if len(w) != len(g) {
		return fmt.Sprintf("row count: want %d got %d\nwant: %s\ngot:  %s", len(w), len(g), RowsString(w, 12), RowsString(g, 12))
	}
	for i := range w {
		if w[i].Key != g[i].Key || w[i].TS != g[i].TS {
			return fmt.Sprintf("row %d: want %s got %s\nwant: %s\ngot:  %s", i, w[i], g[i], RowsString(w, 12), RowsString(g, 12))
		}
		names := fields
		if names == nil {
			for n := range w[i].Vals {
				names = append(names, n)
			}
			sort.Strings(names)
		}
		for _, n := range names {
			wv, wok := w[i].Vals[n]
			gv, gok := g[i].Vals[n]
			if wok != gok || !FloatEq(wv, gv) {
				return fmt.Sprintf("row %d field %s: want %v (present %v) got %v (present %v)\nwant: %s\ngot:  %s", i, n, wv, wok, gv, gok, w[i], g[i])
			}
		}
	}
	return ""
}

// RowsString renders up to n rows.
func RowsString(rows []RefRow, n int) string {
	var sb strings.Builder
	for i, r := range rows {
		if i >= n {
			fmt.Fprintf(&sb, " ... (%d more)", len(rows)-n)
			break
		}
		sb.WriteString(r.String())
		sb.WriteString(" ")
	}
	return sb.String()
}
