package h

import (
	"fmt"
	"time"

	"github.com/getlantern/goexpr"
	"github.com/getlantern/zenodb/expr"
)

// BuildPred translates a predicate into a goexpr expression using goexpr's
// public constructors (not through the SQL parser).
func BuildPred(p *Pred) (goexpr.Expr, error) {
	switch p.Op {
	case "TRUE":
		return goexpr.Binary("=", goexpr.Constant(true), goexpr.Constant(true))
	case "AND", "OR":
		l, err := BuildPred(p.Args[0])
		if err != nil {
			return nil, err
		}
		r, err := BuildPred(p.Args[1])
		if err != nil {
			return nil, err
		}
		return goexpr.Binary(p.Op, l, r)
	case "NOT":
		l, err := BuildPred(p.Args[0])
		if err != nil {
			return nil, err
		}
		return goexpr.Not(l), nil
	case "ISNULL":
		return goexpr.Binary("==", goexpr.Param(p.Dim), goexpr.Constant(nil))
	case "NOTNULL":
		return goexpr.Binary("<>", goexpr.Param(p.Dim), goexpr.Constant(nil))
	case "IN":
		list := make(goexpr.ArrayList, 0, len(p.List))
		for _, v := range p.List {
			list = append(list, goexpr.Constant(v.Go()))
		}
		return goexpr.In(goexpr.Param(p.Dim), list), nil
	case "NOTLIKE":
		return goexpr.Binary("NOT LIKE", goexpr.Param(p.Dim), goexpr.Constant(p.Lit.Go()))
	}
	return goexpr.Binary(p.Op, goexpr.Param(p.Dim), goexpr.Constant(p.Lit.Go()))
}

// BuildExpr translates a field expression into a zenodb expr.Expr using the
// expr package's public constructors.
func BuildExpr(e *Ex) (expr.Expr, error) {
	inner := func() interface{} {
		if e.Bnd {
			return expr.BOUNDED(expr.FIELD(e.F), e.Lo, e.Hi)
		}
		return expr.FIELD(e.F)
	}
	switch e.Op {
	case "SUM":
		return expr.SUM(inner()), nil
	case "MIN":
		return expr.MIN(inner()), nil
	case "MAX":
		return expr.MAX(inner()), nil
	case "COUNT":
		return expr.COUNT(inner()), nil
	case "AVG":
		return expr.AVG(inner()), nil
	case "WAVG":
		return expr.WAVG(inner(), expr.FIELD(e.W)), nil
	case "CONST":
		return expr.CONST(e.Num), nil
	case "PCT":
		return expr.PERCENTILE(expr.FIELD(e.F), expr.CONST(e.Pct), e.Lo, e.Hi, e.Prec), nil
	case "PCTOPT":
		// PERCENTILE(<existing percentile>, p): reads another percentile of
		// the wrapped percentile's histogram (msgpack extension 60)
		w, err := BuildExpr(e.Args[0])
		if err != nil {
			return nil, err
		}
		if !expr.IsPercentile(w) {
			return nil, fmt.Errorf("PCTOPT around %s", e.Args[0].Op)
		}
		return expr.PERCENTILEOPT(w, expr.CONST(e.Pct)), nil
	case "IF":
		cond, err := BuildPred(e.Cond)
		if err != nil {
			return nil, err
		}
		w, err := BuildExpr(e.Args[0])
		if err != nil {
			return nil, err
		}
		return expr.IF(cond, w), nil
	case "LN", "LOG2", "LOG10":
		w, err := BuildExpr(e.Args[0])
		if err != nil {
			return nil, err
		}
		return expr.UnaryMath(e.Op, w)
	case "BOUNDEDTOP":
		w, err := BuildExpr(e.Args[0])
		if err != nil {
			return nil, err
		}
		return expr.BOUNDED(w, e.Lo, e.Hi), nil
	case "SHIFT":
		w, err := BuildExpr(e.Args[0])
		if err != nil {
			return nil, err
		}
		return expr.SHIFT(w, time.Duration(e.Off)), nil
	}
	l, err := BuildExpr(e.Args[0])
	if err != nil {
		return nil, err
	}
	r, err := BuildExpr(e.Args[1])
	if err != nil {
		return nil, err
	}
	switch e.Op {
	case "+":
		return expr.ADD(l, r), nil
	case "-":
		return expr.SUB(l, r), nil
	case "*":
		return expr.MULT(l, r), nil
	case "/":
		return expr.DIV(l, r), nil
	case "<":
		return expr.LT(l, r), nil
	case "<=":
		return expr.LTE(l, r), nil
	case "=":
		return expr.EQ(l, r), nil
	case "<>":
		return expr.NEQ(l, r), nil
	case ">=":
		return expr.GTE(l, r), nil
	case ">":
		return expr.GT(l, r), nil
	case "AND":
		return expr.AND(l, r), nil
	case "OR":
		return expr.OR(l, r), nil
	}
	return nil, fmt.Errorf("unknown op %s", e.Op)
}

// GenTree draws an arbitrary valid expression tree (not restricted by the SQL
// grammar): binary operators over aggregates, IFs, math, percentiles, shifts.
func GenTreeOps() []string {
	return []string{"+", "-", "*", "/", "<", "<=", "=", "<>", ">=", ">", "AND", "OR"}
}
