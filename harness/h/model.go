package h

import (
	"fmt"
	"math"
	"sort"
	"strconv"
	"strings"
	"time"
)

// Val is a typed scalar (or array) value as it is handed to DB.Insert.
type Val struct {
	K string    `json:"k"` // nil int float str bool i64 f32 u8 ints floats
	I int64     `json:"i,omitempty"`
	F float64   `json:"f,omitempty"`
	S string    `json:"s,omitempty"`
	B bool      `json:"b,omitempty"`
	L []float64 `json:"l,omitempty"`
}

func IntV(i int64) Val     { return Val{K: "int", I: i} }
func FloatV(f float64) Val { return Val{K: "float", F: f} }
func StrV(s string) Val    { return Val{K: "str", S: s} }
func BoolV(b bool) Val     { return Val{K: "bool", B: b} }
func NilV() Val            { return Val{K: "nil"} }

// Go converts to the Go value given to zenodb.
func (v Val) Go() interface{} {
	switch v.K {
	case "int":
		return int(v.I)
	case "float":
		return v.F
	case "str":
		return v.S
	case "bool":
		return v.B
	case "i64":
		return v.I
	case "f32":
		return float32(v.F)
	case "u8":
		return byte(v.I)
	case "i32":
		return int32(v.I)
	case "u64":
		return uint64(v.I)
	case "ints":
		out := make([]int, len(v.L))
		for i, x := range v.L {
			out[i] = int(x)
		}
		return out
	case "floats":
		return append([]float64(nil), v.L...)
	}
	return nil
}

// Canon renders a value canonically with its type.
func (v Val) Canon() string {
	switch v.K {
	case "int", "i64", "u8", "i32", "u64":
		return v.K + ":" + strconv.FormatInt(v.I, 10)
	case "float", "f32":
		return v.K + ":" + strconv.FormatFloat(v.F, 'g', -1, 64)
	case "str":
		return "str:" + v.S
	case "bool":
		return "bool:" + strconv.FormatBool(v.B)
	}
	return "nil"
}

// CanonGo renders a decoded Go value (from bytemap) in the same form as Canon.
func CanonGo(x interface{}) string {
	switch t := x.(type) {
	case nil:
		return "nil"
	case int:
		return "int:" + strconv.FormatInt(int64(t), 10)
	case int64:
		return "i64:" + strconv.FormatInt(t, 10)
	case int32:
		return "i32:" + strconv.FormatInt(int64(t), 10)
	case byte:
		return "u8:" + strconv.FormatInt(int64(t), 10)
	case uint64:
		return "u64:" + strconv.FormatInt(int64(t), 10)
	case float64:
		return "float:" + strconv.FormatFloat(t, 'g', -1, 64)
	case float32:
		return "f32:" + strconv.FormatFloat(float64(t), 'g', -1, 64)
	case string:
		return "str:" + t
	case bool:
		return "bool:" + strconv.FormatBool(t)
	case time.Time:
		return "time:" + strconv.FormatInt(t.UnixNano(), 10)
	}
	return fmt.Sprintf("%T:%v", x, x)
}

// KV is a named value.
type KV struct {
	N string `json:"n"`
	V Val    `json:"v"`
}

// Point is one inserted point.
type Point struct {
	TS   int64 `json:"ts"` // unix nanos
	Dims []KV  `json:"d,omitempty"`
	Vals []KV  `json:"v,omitempty"`
}

func (p Point) DimMap() map[string]interface{} {
	m := make(map[string]interface{}, len(p.Dims))
	for _, kv := range p.Dims {
		m[kv.N] = kv.V.Go()
	}
	return m
}

func (p Point) ValMap() map[string]interface{} {
	m := make(map[string]interface{}, len(p.Vals))
	for _, kv := range p.Vals {
		m[kv.N] = kv.V.Go()
	}
	return m
}

func (p Point) Dim(n string) (Val, bool) {
	for _, kv := range p.Dims {
		if kv.N == n {
			return kv.V, true
		}
	}
	return Val{}, false
}

func (p Point) Time() time.Time { return time.Unix(0, p.TS) }

// ---------------------------------------------------------------------------
// dimension predicates

// Pred is a predicate over dimensions.
type Pred struct {
	Op   string  `json:"op"` // = <> < <= > >= LIKE NOTLIKE IN ISNULL NOTNULL AND OR NOT TRUE
	Dim  string  `json:"dim,omitempty"`
	Lit  *Val    `json:"lit,omitempty"`
	List []Val   `json:"list,omitempty"`
	Args []*Pred `json:"args,omitempty"`
	// Rev renders a comparison with the literal on the left and the mirrored
	// operator ('x' < da for da > 'x'); the meaning is unchanged
	Rev bool `json:"rev,omitempty"`
}

func litSQL(v Val) string {
	switch v.K {
	case "str":
		return "'" + strings.ReplaceAll(v.S, "'", "''") + "'"
	case "int":
		return strconv.FormatInt(v.I, 10)
	case "float":
		return strconv.FormatFloat(v.F, 'f', -1, 64)
	case "bool":
		return strconv.FormatBool(v.B)
	}
	return "NULL"
}

// SQL renders the predicate.
func (p *Pred) SQL() string {
	switch p.Op {
	case "TRUE":
		return "TRUE = TRUE"
	case "AND", "OR":
		return "(" + p.Args[0].SQL() + " " + p.Op + " " + p.Args[1].SQL() + ")"
	case "NOT":
		return "NOT (" + p.Args[0].SQL() + ")"
	case "ISNULL":
		return p.Dim + " IS NULL"
	case "NOTNULL":
		return p.Dim + " IS NOT NULL"
	case "IN":
		parts := make([]string, len(p.List))
		for i, v := range p.List {
			parts[i] = litSQL(v)
		}
		return p.Dim + " IN (" + strings.Join(parts, ", ") + ")"
	case "NOTLIKE":
		return p.Dim + " NOT LIKE " + litSQL(*p.Lit)
	}
	if p.Rev {
		mirror := map[string]string{"=": "=", "<>": "<>", "<": ">", "<=": ">=", ">": "<", ">=": "<="}
		if m, ok := mirror[p.Op]; ok {
			return litSQL(*p.Lit) + " " + m + " " + p.Dim
		}
	}
	return p.Dim + " " + p.Op + " " + litSQL(*p.Lit)
}

// Dims lists the dimensions the predicate reads.
func (p *Pred) DimNames(into map[string]bool) {
	if p == nil {
		return
	}
	if p.Dim != "" {
		into[p.Dim] = true
	}
	for _, a := range p.Args {
		a.DimNames(into)
	}
}

func cmpVal(a, b Val) (int, bool) {
	switch {
	case a.K == "str" && b.K == "str":
		return strings.Compare(a.S, b.S), true
	case (a.K == "int" || a.K == "i64") && (b.K == "int" || b.K == "i64"):
		switch {
		case a.I < b.I:
			return -1, true
		case a.I > b.I:
			return 1, true
		}
		return 0, true
	case a.K == "bool" && b.K == "bool":
		if a.B == b.B {
			return 0, true
		}
		if !a.B {
			return -1, true
		}
		return 1, true
	}
	return 0, false
}

func likeMatch(a, pat string) bool {
	a = strings.ToLower(a)
	pat = strings.ToLower(pat)
	end := strings.HasSuffix(pat, "%")
	if end {
		pat = pat[:len(pat)-1]
	}
	if pat == "" {
		return true
	}
	start := strings.HasPrefix(pat, "%")
	if start {
		pat = pat[1:]
	}
	switch {
	case !start && !end:
		return a == pat
	case pat == "":
		return true
	case start && end:
		return strings.Contains(a, pat)
	case end:
		return strings.HasPrefix(a, pat)
	}
	return strings.HasSuffix(a, pat)
}

// Eval evaluates the predicate over a dimension lookup. The reference
// semantics are those of SQL-style comparisons with "missing sorts first":
// a missing (nil) dimension equals nothing, differs from everything, and is
// smaller than every value. Only type-consistent comparisons are generated.
func (p *Pred) Eval(get func(string) (Val, bool)) bool {
	switch p.Op {
	case "TRUE":
		return true
	case "AND":
		return p.Args[0].Eval(get) && p.Args[1].Eval(get)
	case "OR":
		return p.Args[0].Eval(get) || p.Args[1].Eval(get)
	case "NOT":
		return !p.Args[0].Eval(get)
	}
	v, ok := get(p.Dim)
	if ok && v.K == "nil" {
		ok = false
	}
	switch p.Op {
	case "ISNULL":
		return !ok
	case "NOTNULL":
		return ok
	case "IN":
		if !ok {
			return false
		}
		for _, c := range p.List {
			if r, comparable := cmpVal(v, c); comparable && r == 0 {
				return true
			}
		}
		return false
	}
	if !ok {
		switch p.Op {
		case "<>", "<", "<=", "NOTLIKE":
			return true
		}
		return false
	}
	switch p.Op {
	case "LIKE":
		return v.K == "str" && likeMatch(v.S, p.Lit.S)
	case "NOTLIKE":
		return !(v.K == "str" && likeMatch(v.S, p.Lit.S))
	}
	r, comparable := cmpVal(v, *p.Lit)
	if !comparable {
		return p.Op == "<>"
	}
	switch p.Op {
	case "=":
		return r == 0
	case "<>":
		return r != 0
	case "<":
		return r < 0
	case "<=":
		return r <= 0
	case ">":
		return r > 0
	case ">=":
		return r >= 0
	}
	return false
}

// ---------------------------------------------------------------------------
// field expressions

// Ex is a field expression.
type Ex struct {
	Op   string  `json:"op"` // SUM MIN MAX COUNT AVG WAVG | + - * / < <= = <> >= > AND OR | CONST | IF | LN LOG2 LOG10 | BOUNDEDTOP | PCT | PCTOPT | REF | SHIFT
	F    string  `json:"f,omitempty"`
	W    string  `json:"w,omitempty"`
	Bnd  bool    `json:"bnd,omitempty"`
	Lo   float64 `json:"lo,omitempty"`
	Hi   float64 `json:"hi,omitempty"`
	Num  float64 `json:"num,omitempty"`
	Cond *Pred   `json:"cond,omitempty"`
	Args []*Ex   `json:"args,omitempty"`
	// percentile parameters
	Pct  float64 `json:"pct,omitempty"`
	Prec int     `json:"prec,omitempty"`
	// shift offset (nanos) for SHIFT; reference name for REF
	Off int64 `json:"off,omitempty"`
}

func numSQL(f float64) string {
	if f == math.Trunc(f) && math.Abs(f) < 1e15 {
		return strconv.FormatInt(int64(f), 10)
	}
	return strconv.FormatFloat(f, 'f', -1, 64)
}

func (e *Ex) inner() string {
	if e.Bnd {
		return fmt.Sprintf("BOUNDED(%s, %s, %s)", e.F, numSQL(e.Lo), numSQL(e.Hi))
	}
	return e.F
}

// SQL renders the expression.
func (e *Ex) SQL() string {
	switch e.Op {
	case "SUM", "MIN", "MAX", "COUNT", "AVG":
		return e.Op + "(" + e.inner() + ")"
	case "WAVG":
		return "WAVG(" + e.inner() + ", " + e.W + ")"
	case "CONST":
		return numSQL(e.Num)
	case "IF":
		return "IF(" + e.Cond.SQL() + ", " + e.Args[0].SQL() + ")"
	case "LN", "LOG2", "LOG10":
		return e.Op + "(" + e.Args[0].SQL() + ")"
	case "BOUNDEDTOP":
		return fmt.Sprintf("BOUNDED(%s, %s, %s)", e.Args[0].SQL(), numSQL(e.Lo), numSQL(e.Hi))
	case "PCT":
		return fmt.Sprintf("PERCENTILE(%s, %s, %s, %s, %d)", e.F, numSQL(e.Pct), numSQL(e.Lo), numSQL(e.Hi), e.Prec)
	case "PCTREF":
		return fmt.Sprintf("PERCENTILE(%s, %s)", e.F, numSQL(e.Pct))
	case "PCTOPT":
		return fmt.Sprintf("PERCENTILE(%s, %s)", e.Args[0].SQL(), numSQL(e.Pct))
	case "REF":
		return e.F
	case "SHIFT":
		return fmt.Sprintf("SHIFT(%s, '%s')", e.Args[0].SQL(), time.Duration(e.Off).String())
	}
	return "(" + e.Args[0].SQL() + " " + e.Op + " " + e.Args[1].SQL() + ")"
}

// Walk visits the expression tree.
func (e *Ex) Walk(fn func(*Ex)) {
	fn(e)
	for _, a := range e.Args {
		a.Walk(fn)
	}
}

// FieldDef is a named expression.
type FieldDef struct {
	Name string `json:"name"`
	Ex   *Ex    `json:"ex"`
}

// TableDef describes one table or view.
type TableDef struct {
	Name       string     `json:"name"`
	Stream     string     `json:"stream,omitempty"`
	ViewOf     string     `json:"view_of,omitempty"`
	Fields     []FieldDef `json:"fields"`
	Star       bool       `json:"star,omitempty"` // view: SELECT *
	GroupBy    []string   `json:"group_by,omitempty"`
	GroupAll   bool       `json:"group_all,omitempty"`
	Where      *Pred      `json:"where,omitempty"`
	ResNS      int64      `json:"res"`
	RetNS      int64      `json:"ret"`
	MinFlushNS int64      `json:"minflush,omitempty"`
	MaxFlushNS int64      `json:"maxflush,omitempty"`
	PartBy     []string   `json:"part_by,omitempty"`
}

// SQL renders the table definition query.
func (t *TableDef) SQL() string {
	var sb strings.Builder
	sb.WriteString("SELECT ")
	if t.Star {
		sb.WriteString("*")
	}
	for i, f := range t.Fields {
		if i > 0 || t.Star {
			sb.WriteString(", ")
		}
		sb.WriteString(f.Ex.SQL() + " AS " + f.Name)
	}
	from := t.Stream
	if t.ViewOf != "" {
		from = t.ViewOf
	}
	sb.WriteString(" FROM " + from)
	if t.Where != nil {
		sb.WriteString(" WHERE " + t.Where.SQL())
	}
	var gb []string
	if t.GroupAll {
		// no explicit dims: GROUP BY * is implied when only a period is given
	} else {
		gb = append(gb, t.GroupBy...)
	}
	if t.ResNS > 0 {
		gb = append(gb, fmt.Sprintf("period(%s)", time.Duration(t.ResNS)))
	}
	if len(gb) > 0 {
		sb.WriteString(" GROUP BY " + strings.Join(gb, ", "))
	}
	return sb.String()
}

// Schema is the set of tables of a case.
type Schema struct {
	Tables []TableDef `json:"tables"`
}

func (s *Schema) Table(name string) *TableDef {
	for i := range s.Tables {
		if s.Tables[i].Name == name {
			return &s.Tables[i]
		}
	}
	return nil
}

// SortedNames returns sorted keys of a set.
func SortedNames(m map[string]bool) []string {
	out := make([]string, 0, len(m))
	for k := range m {
		out = append(out, k)
	}
	sort.Strings(out)
	return out
}
