#!/usr/bin/env python3
"""Writes MANIFEST.json from checks_config.CONFIG and the per-property texts in manifest_texts.py."""
import json, os, subprocess, sys
sys.path.insert(0, os.path.dirname(os.path.abspath(__file__)))
from checks_config import CONFIG
from manifest_texts import TEXTS, NOT_APPLICABLE

hooks = subprocess.run(["git", "-C", "/repo", "log", "--format=%H %s"], stdout=subprocess.PIPE, text=True).stdout.splitlines()
hook_commits = [l.split()[0] for l in hooks if " verif hooks" in l]
m = {
    "version": 1,
    "setup_cmd": "./setup.sh",
    "hooks": {
        "guard": "verif",
        "enable": "go build tag: the driver builds the harness with `go test -c -tags verif` and a replace directive pointing at /repo, so /repo's current working tree is compiled with verif_hooks.go instead of verif_nohooks.go",
        "baseline_off_cmd": "cd /repo && GOFLAGS=-mod=mod GOPROXY=off GOSUMDB=off go test -vet=off -count=1 -timeout 25m ./...",
        "source_commits": hook_commits,
        "add_only": True,
    },
    "engines": [{"name": "rapid+driver", "path": "check", "serves_properties": sorted(CONFIG), "kind_free_text": "python driver that builds one Go test binary (pgregory.net/rapid v1.3.0 generators + interpreters + reference models, native go fuzz targets) against /repo's working tree, shards it by derived seeds, merges shard reports into evidence/<id>.json"}],
    "checks": [],
    "notes": "See DESIGN.md. KNOWN_FINDINGS.txt lists recorded defects (known:) and repaired ones (fixed:).",
    "not_applicable": NOT_APPLICABLE,
}
allids = [json.loads(l)["id"] for l in open(os.path.join(os.path.dirname(os.path.abspath(__file__)), "properties.jsonl"))]
for pid in allids:
    if pid not in CONFIG and not any(n["property_id"] == pid for n in m["not_applicable"]):
        m["not_applicable"].append({"property_id": pid, "reason": "not claimed in this commit: its generated-input check (DESIGN.md section 4) is not built/validated yet; the technique does apply"})
for pid in sorted(CONFIG):
    c = CONFIG[pid]
    t = TEXTS[pid]
    m["checks"].append({
        "property_id": pid,
        "quick_cmd": "./check %s quick" % pid,
        "thorough_cmd": "./check %s thorough" % pid,
        "evidence_file": "evidence/%s.json" % pid,
        "replay_cmd_template": "./check %s --replay {path}" % pid,
        "engine": "rapid+driver",
        "level_claimed": {"category": c["level"], "text": t["level_text"], "design_ref": t["design_ref"]},
        "level_note": t["level_note"],
        "technique": t["technique"],
    })
json.dump(m, open(os.path.join(os.path.dirname(os.path.abspath(__file__)), "MANIFEST.json"), "w"), indent=1)
print("wrote MANIFEST.json with", len(m["checks"]), "checks")
