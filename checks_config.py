"""Per-property configuration of the check driver: which tests run, sharding
and case counts per tier, evidence level and the non-triviality rule."""

def part(test, shards, checks, timeout=900, **kw):
    d = {"test": test, "shards": shards, "checks": checks, "timeout": timeout}
    d.update(kw)
    return d

CONFIG = {
    "C01": {
        "level": "exploration",
        "rule": "rapid-generated schema (1-3 tables + optional view on one stream, fields from the aggregate grammar, GROUP BY */dim subsets, optional WHERE, timer flushes) x point sequence x interleaved forced flushes/sleeps; every table's SELECT * (memstore-inclusive, after an exact ingestion barrier) is compared with an independent reference aggregator over the raw points. Non-trivial: >=2 points share a (key, period) in some table AND (a point on an exact period boundary OR out-of-order arrival OR a flush between two points OR >=2 tables). Distinct = distinct hash of the generated case.",
        "assumptions": ["dimension/value names pairwise non-prefix (listed finding: bytemap prefix match)", "no array-valued samples (listed finding: 2n-1 storage)", "time span of a case shorter than every table's retention", "comparison tolerance 1e-9 relative"],
        "quick": {"parts": [part("TestC01", 16, 60)]},
        "thorough": {"parts": [part("TestC01", 32, 700, timeout=3000)]},
    },
}
