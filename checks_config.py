"""Per-property configuration of the check driver: which tests run, sharding
and case counts per tier, evidence level and the non-triviality rule."""

def part(test, shards, checks, timeout=900, **kw):
    d = {"test": test, "shards": shards, "checks": checks, "timeout": timeout}
    d.update(kw)
    return d

CONFIG = {
    "C01": {
        "level": "exploration",
        "rule": "rapid-generated schema (1-3 tables + optional view on one stream, fields from the aggregate grammar, GROUP BY */dim subsets, optional WHERE, timer flushes) x point sequence x interleaved forced flushes/sleeps; every table's SELECT * (memstore-inclusive, after an exact ingestion barrier) is compared with an independent reference aggregator over the raw points. Non-trivial: >=2 points share a (key, period) in some table AND (a point on an exact period boundary OR out-of-order arrival OR a flush between two points OR >=2 tables). Distinct = distinct hash of the generated case.",
        "assumptions": ["dimension/value names pairwise non-prefix (listed finding: bytemap prefix match)", "no array-valued samples (listed finding: 2n-1 storage)", "time span of a case shorter than every table's retention", "comparison tolerance 1e-9 relative"],
        "quick": {"parts": [part("TestC01", 16, 60)]},
        "thorough": {"parts": [part("TestC01", 32, 700, timeout=3000)]},
    },
    "C09": {
        "level": "exploration",
        "rule": "(a) core level: rapid-generated flat row sets (ties, missing dims, 0-14 rows) x ORDER BY key lists of length 1-4 (fields, dims, _time at every position, ASC/DESC) x LIMIT/OFFSET in [0, rows+3], run through core.Sort/Offset/Limit composed as the planner composes them; (b) SQL level: generated dataset in a real database, SELECT ... ORDER BY ... LIMIT/OFFSET through DB.Query compared with the unordered query. Oracle (validity predicate): output is a sub-multiset of the unordered result with exactly min(n, max(0,total-m)) rows, adjacent rows non-decreasing under an independent lexicographic comparator, and row i key-equivalent to row m+i of a reference sort. Non-trivial: >=2 keys and two rows that tie on the first key but differ on the full list.",
        "assumptions": ["one scalar type per ordered dimension (core.compare type-asserts its second operand)", "missing dimension sorts before any value (nil first), as core.compare documents by code and TestSort* pin"],
        "quick": {"parts": [part("TestC09Core", 4, 20000), part("TestC09SQL", 8, 40)]},
        "thorough": {"parts": [part("TestC09Core", 16, 400000, timeout=3000), part("TestC09SQL", 16, 600, timeout=3000)]},
    },
    "C05": {
        "level": "exploration",
        "rule": "(a) rapid-generated expression trees (SUM/MIN/MAX/COUNT/AVG/WAVG leaves with optional BOUNDED, PERCENTILE, + - * /, comparisons, AND/OR, IF over dimension predicates, SHIFT, LN/LOG2/LOG10, constants; depth <= 4) x multisets of 0-8 updates (params + metadata) x a split into up to 3 parts: Get(Merge(states)) must equal the denotational value over the union, both merge orders and both associations, Merge must not modify operands; (b) rapid-generated pairs/triples of stored series (until, length, per-period samples) x truncation bounds on the grid and half-grid for Sequence.Merge / Truncate / SubMerge (scale 1,2,3,5) against a map period->multiset model incl. operand-bytes-unchanged; (c) the same for Merge and Truncate exhaustively over a bounded window. Non-trivial: (a) tree depth >= 3 and >= 2 non-empty parts; (b) both series non-empty with an overlap or a gap (merge), >= 2 periods and a bound (truncate), scale > 1 (submerge). Distinct = distinct case hash / enumeration key.",
        "assumptions": ["values are small integers or quarters so that re-association is exact; tolerance 1e-9", "periods at or before truncateBefore are not required to be retained by Merge"],
        "quick": {"parts": [part("TestC05Expr", 4, 15000), part("TestC05Seq", 4, 15000), part("TestC05SeqExhaustive", 1, 1)]},
        "thorough": {"parts": [part("TestC05Expr", 16, 300000, timeout=3000), part("TestC05Seq", 16, 300000, timeout=3000), part("TestC05SeqExhaustive", 1, 1)]},
    },
    "C03": {
        "level": "exploration",
        "rule": "rapid-generated schema (1-2 tables, incl. PERCENTILE and IF fields) x point sequence x a PAIR of independently drawn storage schedules (none / flush every k-th insert / timer-driven with min+max latency / >=10 forced flushes (reaches the every-10th truncating flush) / a few forced flushes; optional clean restarts; optional memory cap => sorted flushes) x 1-4 queries from the full query grammar (field subsets, derived/shifted fields, ASOF/UNTIL, WHERE, GROUP BY, stride, crosstab, HAVING, ORDER, LIMIT, subqueries). Metamorphic oracle: every query returns the same rows under schedule A and schedule B (memstore-inclusive), the same rows before and after a final FlushAll, and disk-only == memstore-inclusive right after that flush. Non-trivial: the two schedules differ and at least one flush falls strictly inside the point sequence (data split between file and memory).",
        "assumptions": ["virtual clocks are aligned to the newest generated timestamp before querying (a restart resets the virtual clock)", "LIMIT/OFFSET results are compared by count (and by ORDER BY key values when ordered) because ties make the slice ambiguous", "constant operands are allowed in queries here: both schedules see the same gap-row artefact"],
        "quick": {"parts": [part("TestC03", 16, 25)]},
        "thorough": {"parts": [part("TestC03", 32, 400, timeout=3000)]},
    },
    "C04": {
        "level": "exploration",
        "rule": "rapid-generated dataset + storage split (memory only / disk only / split by forced flushes) x 1-3 queries Q from the full grammar (ASOF/UNTIL biased to end before the newest stored period, aligned and unaligned; strides, shifts, crosstab, subqueries; with and without memstore) x probes (SELECT * of every table plus one generated query). Differential oracle: every probe returns the same rows before Q, after each Q, after a following FlushAll memstore-inclusive and disk-only; Q's own result and errors are irrelevant. Non-trivial: >=2 points and (some Q has an UNTIL before the newest point while data is still in the memstore, or Q regroups).",
        "assumptions": ["no insert happens between the probes (the harness owns the only writer)", "clock pinned to the newest generated timestamp"],
        "quick": {"parts": [part("TestC04", 16, 30)]},
        "thorough": {"parts": [part("TestC04", 32, 500, timeout=3000)]},
    },
    "C06": {
        "level": "exploration",
        "rule": "rapid-generated single-table dataset (fields from the aggregate grammar incl. IF/BOUNDED/PERCENTILE, GROUP BY */dim subsets, WHERE, mixed-type dims) + storage split x a grouped query: SELECT _points, <subset of table fields>, optional derived ratio/sum/product of two fields, GROUP BY {all dims kept | subset of dims | none}, period multiple in {none,1,2,3,4,5,7,10, larger than the window}, clock at newest point + {0, 1ns, res/2, res, 3res}. Oracle: reference aggregator over the raw accepted points, re-bucketed at the query anchor (until = clock rounded up), every field recomputed from its components; plus the validity predicate 'no two rows share key and period'. Non-trivial: some output row folds >=2 fine periods and >=2 source keys.",
        "assumptions": ["constants are not used in derived fields (listed finding const-operand-gap-rows)", "table fields have pairwise different expression text (listed finding same-expr-text-fields)", "_points is always selected so that row existence does not depend on which fields happen to be set"],
        "quick": {"parts": [part("TestC06", 16, 40)]},
        "thorough": {"parts": [part("TestC06", 32, 600, timeout=3000)]},
    },
    "C07": {
        "level": "exploration",
        "rule": "as C06 plus ASOF and/or UNTIL: absolute aligned to the resolution, absolute unaligned (millisecond), relative in whole periods, relative unaligned; inside, outside and straddling the stored data; combined with every grouping and period choice. Oracle: the reference result for a window (A, U] where an aligned bound is exact and an unaligned bound may be applied rounded down or up (a period straddling a bound may or may not be included; periods wholly inside must be, periods wholly outside must not); a documented planning error is accepted only when the window starts before the table's retention window, is empty, or ends after now. Non-trivial: a bound falls strictly inside the stored series and >= 2 accepted points.",
        "assumptions": ["as C06", "values inside the window are compared with the reference (which the unbounded query of C06 is also compared with), so 'identical to the unbounded query' follows"],
        "quick": {"parts": [part("TestC07", 16, 40)]},
        "thorough": {"parts": [part("TestC07", 32, 600, timeout=3000)]},
    },
    "C08": {
        "level": "exploration",
        "rule": "rapid-generated single-table dataset + storage split x a base query (field subsets, derived fields, GROUP BY */dims/_, period multiples) x one clause under test: (where) a dimension predicate over the table's stored dims [=,<>,<,<=,>,>=,LIKE,NOT LIKE,IN,IS [NOT] NULL,AND/OR/NOT] - oracle: the WHERE-free query on a SECOND database that received only the points whose stored key satisfies the predicate under the harness's own evaluator; (having) a condition over selected and unselected fields - oracle: rows of the HAVING-free query (with the needed fields added) filtered by the harness's evaluator, helper column absent; (insub) dim IN (SELECT dim ... [WHERE][HAVING]) - oracle: IN over the literal list of distinct values obtained by running the subquery alone; (fromsub) outer fields/aggregates over FROM (native-resolution subquery) with outer GROUP BY/period - oracle: reference aggregation of the materialised inner rows. Non-trivial: >= 3 points. Distinct = case hash.",
        "assumptions": ["predicates are type-consistent (string dims vs string literals, int vs int); IN lists without zero/empty literals", "HAVING conditions come from the sub-grammar 'expression cmp constant, false for an all-zero row' (two listed findings excluded by construction and probed)", "_points is always selected"],
        "quick": {"parts": [part("TestC08", 16, 40)]},
        "thorough": {"parts": [part("TestC08", 32, 500, timeout=3000)]},
    },
    "C11": {
        "level": "translation_validation",
        "rule": "per generated program (SQL query from the full grammar: field subsets, derived fields, WHERE, IN- and FROM-subqueries, GROUP BY dims/_/*, period, stride, CROSSTAB with dims, HAVING, ORDER BY, LIMIT) and per generated split of a single table's rows over N in 1..6 partitions that respects the table's partition keys (hash with a generated salt, or an explicit generated assignment of key tuples to partitions): the plan a passthrough leader produces for the cluster (whole-query pushdown, or partition pre-aggregation + leader-side group/having/order/limit) is executed against N real partition databases through harness-registered query handlers that do exactly what a follower does, and its rows are compared with the local plan of a standalone database holding the union. Non-trivial: the query is not a bare SELECT * and the data occupy >= 2 partitions. programs = cases (each with 1-4 queries); disagreements_checked = queries compared.",
        "assumptions": ["six listed findings of the cluster planner are excluded by construction and probed: textual GROUP BY rewrite, OFFSET pushed down and re-applied, GROUP BY _ with CROSSTAB (bytemap prefix match), CROSSTAB without explicit dims (leader panic), SHIFT applied twice, pushdown over tables whose keys are split across partitions", "clocks of leader and partitions pinned to the newest generated timestamp", "LIMIT results compared by count / ORDER BY key values"],
        "quick": {"parts": [part("TestC11", 16, 25)]},
        "thorough": {"parts": [part("TestC11", 32, 400, timeout=3000)]},
    },
    "C10": {
        "level": "exploration",
        "rule": "rapid-generated schema (1-2 tables, partitionBy a subset of the table's group-by dims in sorted or unsorted order, or none for tables grouping by all dims) x dataset x cluster configuration (1-4 partitions, 1-2 leaders, 1-2 followers per partition; real in-process WAL replication through DBOpts.Follow / DB.Follow and real remote query handlers) x leader chosen per point x 1-3 queries from the full grammar. Differential oracle: every leader query returns the standalone database's rows; accounting oracle: per table the partitions' SELECT * rows carry exactly the standalone's _points per (key, period) - each accepted point applied by exactly one partition - and redundant followers of a partition are equal. Non-trivial: >= 2 partitions, >= 3 points and a query that regroups, filters or orders.",
        "assumptions": ["cluster quiescence is established from leader/follower progress hooks (barrier marker dispatched, last submitted entry delivered, nothing in flight, counters stable twice), never by sleeping", "virtual clocks of all nodes pinned to the newest generated timestamp before querying", "the cluster-planner findings listed under C11 are excluded by construction (same query normalisation)", "tables with named group-by dims are always partitioned by some of those dims (listed finding pushdown-splits-table-key)"],
        "quick": {"parts": [part("TestC10", 16, 12)]},
        "thorough": {"parts": [part("TestC10", 32, 200, timeout=3000)]},
    },
    "C20": {
        "level": "exploration",
        "rule": "(a) codec: rapid-generated field lists of expression trees (all expression kinds incl. BOUNDED, IF with dimension predicates, PERCENTILE, SHIFT, unary math, comparisons) are sent through rpc.Codec inside the real message structs; the decoded expressions must have the same text, width, shift, validity AND behave the same: same state bytes from generated updates, same Get, same Merge of partial states produced on either side, value equal to the denotational reference, mutual sub-merger recognition; raw series rows, flat rows, Query messages with typed subquery results and Follow requests round-trip. (b) end-to-end: generated dataset served by rpcserver.PrepareServer on 127.0.0.1, points optionally inserted through the RPC inserter (then compared with the reference aggregator), 1-3 generated queries answered through rpc.Dial(...).Query and embedded; rows, field names and metadata (asOf/until/resolution) must agree. Non-trivial: (a) tree depth >= 2 and >= 2 updates; (b) >= 2 points.",
        "assumptions": ["disk-only queries are issued right after a forced flush so that both executions see the same file store", "the RPC insert endpoint's documented refusal of points without dims or values is respected (such points are inserted in-process)"],
        "quick": {"parts": [part("TestC20Codec", 4, 5000), part("TestC20RPC", 12, 30)]},
        "thorough": {"parts": [part("TestC20Codec", 16, 150000, timeout=3000), part("TestC20RPC", 16, 500, timeout=3000)]},
    },
    "C16": {
        "level": "exploration",
        "rule": "(a) SQL: valid statements (generated from the query grammar over a two-table fixture, plus hand-written statements using every function family) mutated by 0-4 token-level edits (delete, duplicate, swap, replace/insert with keywords of other statement types, operators, literals, function names, unknown identifiers), argument-level edits (drop / duplicate an argument, empty an argument list) and truncation; each is submitted to DB.Query (sql.Parse + planner.Plan) of a standalone database and of a passthrough leader (cluster planning); a panic is a violation, an error or a plan is not. (b) payloads: histories of valid points on fresh keys interleaved with ill-typed Insert payloads (31 value kinds incl. nil, NaN, +-Inf, empty arrays, 70 kB strings, maps, structs, pointers; reserved and empty names) and InsertRaw with arbitrary bytes, on a standalone database and through a 2-partition cluster; no call may panic, ingestion must catch up (a stall must reproduce twice on fresh databases to count), and every valid point must be stored with its value. Thorough adds a native coverage-guided fuzzing campaign of (a). Non-trivial: (a) the statement differs from every seed statement; (b) the history contains a hostile payload.",
        "assumptions": ["statements with an unterminated or empty back-quoted identifier are excluded (listed finding: the dependency's tokenizer never returns)", "hostile payload timestamps stay inside the retention window (a far-future timestamp is a legal point that advances the virtual clock)", "execution-time behaviour of accepted queries is outside C16 (parsing/planning only)"],
        "quick": {"parts": [part("TestC16SQL", 6, 12000), part("TestC16Payload", 10, 40)]},
        "thorough": {"parts": [part("TestC16SQL", 12, 250000, timeout=3000), part("TestC16Payload", 16, 600, timeout=3000), part("FuzzC16SQL", 1, 0, fuzz="300s", timeout=900)]},
    },
    "C19": {
        "level": "exploration",
        "rule": "(lattice, enumerated completely in both tiers) every combination of credential {none, wrong / prefix / suffix / case-variant / password+junk, right password; no header, wrong token, right token, forged cookie, cookie signed with foreign keys, well-signed expired cookie, well-signed unexpired cookie} x endpoint {rpc query, rpc follow, rpc remote-query registration; web /immediate /async /run /cached/<permalink>} x configuration {password set/unset} x {OAuth set/unset} x GitHub stub {unreachable, user in org, user not in org} against real loopback gRPC servers (rpcserver.PrepareServer) and real web handlers (web.Configure on httptest servers, cookie keys supplied by the harness, http.DefaultTransport replaced by a GitHub stub); (near-misses, generated) random prefix/suffix/bit-flip/case/space/deletion mutations of the password, the static token and a valid cookie, cookies with random past expiry or a one-character-different hash key. Oracle (one-directional, as the statement): a request whose credential is not the right password / static token / well-signed unexpired cookie must be refused - no row data and status not in {200, 202}; for registration: a following leader query never reaches the rogue handler. Properly authorised requests must be served only as a fixture sanity check (otherwise inconclusive). Non-trivial: the request is one that must be refused.",
        "assumptions": ["an expired but well-signed cookie for which GitHub still vouches (stub 'in org') may be served or not (unspecified)", "configurations without password (rpc) or without OAuth (web) are out of the property's scope and only exercised"],
        "quick": {"parts": [part("TestC19Lattice", 1, 1), part("TestC19Near", 4, 150)]},
        "thorough": {"parts": [part("TestC19Lattice", 1, 1), part("TestC19Near", 16, 1500, timeout=3000)]},
    },
    "C18": {
        "level": "exploration",
        "rule": "(a) harness-owned schedule: rapid-generated single-table dataset + storage split; a streaming memstore-inclusive scan (SELECT * with an optional dimension filter - the plans that deliver rows while the scan is still running) is paused inside the callback of 1-3 generated rows; during each pause 1-8 generated points (two thirds aimed at keys, and half of those at periods, that are already stored) are inserted and processed to an exact ingestion barrier, optionally with a forced flush. Oracle: the delivered rows equal the rows the same query returned on the quiescent database immediately before (and, without a filter, the reference aggregation of the prefix in all fields); afterwards the query reflects every point. Non-trivial: a pause happened and a point processed during it belongs to a key whose row had not been delivered yet. (b) concurrent stream: an inserter, a flusher (forced flushes at generated stream positions, optional timer flushes) and 1-4 query loops run concurrently over a stream whose every prefix has a unique image (point j -> key j mod K, period (j div K) mod P, va=1, vb=key+1); each of the results must be the image of exactly one prefix L (L = sum of _points; all fields of every row consistent with it) with processed-before-start <= L <= inserted-before-return. Non-trivial: >= 2 results checked.",
        "assumptions": ["(a) 'query start' is the moment the scan copies the memstore, which lies between the Iterate call and the first row callback; every generated point is either processed before the call or inserted inside a callback", "(b) the interleaving is the scheduler's, not the harness's: the oracle is schedule-independent, coverage of particular interleavings is sampled"],
        "quick": {"parts": [part("TestC18", 12, 40), part("TestC18Stream", 4, 12)]},
        "thorough": {"parts": [part("TestC18", 24, 600, timeout=3000), part("TestC18Stream", 8, 150, timeout=3000)]},
    },
    "C17": {
        "level": "exploration",
        "rule": "rapid-generated dataset (1-2 tables) + storage split x 2-8 queries (plain SELECT * LIMIT n - the shape that ends its share of a scan early -, SELECT *, field subsets in generated order, and queries from the full grammar; memstore-inclusive or disk-only; no deadline / a generous deadline / an already expired deadline) x arrival offsets inside or outside the coalesce interval (15-40 ms, set by the case). Each query is run alone before and after, and all are issued concurrently in between; oracle: the concurrent outcome of every query equals its solo outcome (same rows and field list; a query that fails alone - its own expired deadline - must fail, one that succeeds alone must succeed). The sizes of the shared scans are read from zenodb's log only to label cases. Non-trivial: a shared scan of >= 2 queries was formed and the dataset has >= 2 points. Distinct = case hash.",
        "assumptions": ["no insert or flush happens between the solo and the concurrent runs (the harness owns the only writer; a second solo run must reproduce the first, otherwise the case is discarded as a fixture problem)", "whether queries are coalesced is decided by arrival times the harness sets but the scheduler can perturb: the oracle does not depend on it, only the non-triviality label does", "LIMIT without a total order is compared by row count / ORDER BY key values"],
        "quick": {"parts": [part("TestC17", 16, 25)]},
        "thorough": {"parts": [part("TestC17", 32, 400, timeout=3000)]},
    },
}
