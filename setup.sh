#!/bin/sh
# Offline setup: make sure the harness module has its go.sum and warm the Go
# build cache by building the check binary once (about a minute on a cold cache).
set -e
cd "$(dirname "$0")"
export GOFLAGS=-mod=mod GOPROXY=off GOSUMDB=off GOTOOLCHAIN=local
[ -f harness/go.sum ] || cp /repo/go.sum harness/go.sum
exec ./check --build
