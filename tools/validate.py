#!/usr/bin/env python3
"""Validate MANIFEST.json and every evidence file against the schemas (dev helper; run with python3-vt)."""
import json, sys, glob
import jsonschema
m = json.load(open('/verif/MANIFEST.json'))
jsonschema.validate(m, json.load(open('/root/.vp/MANIFEST.schema.json')))
es = json.load(open('/root/.vp/EVIDENCE.schema.json'))
bad = 0
for c in m['checks']:
    try:
        e = json.load(open('/verif/' + c['evidence_file']))
        jsonschema.validate(e, es)
        assert e['level'] == c['level_claimed']['category'], 'level mismatch'
    except Exception as ex:
        bad += 1
        print('BAD', c['property_id'], str(ex)[:300])
ids = [json.loads(l)['id'] for l in open('/verif/properties.jsonl')]
claimed = {c['property_id'] for c in m['checks']}
na = {n['property_id'] for n in m.get('not_applicable', [])}
print('claimed', len(claimed), 'not_applicable', sorted(na), 'unaccounted', sorted(set(ids) - claimed - na))
sys.exit(1 if bad else 0)
