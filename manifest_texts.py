TEXTS = {
    "C01": {
        "level_text": "Exploration by generated-input search: thousands of generated (schema, point sequence, flush interleaving) cases per run, each decided by an independent reference aggregator over the raw points; finds aggregation/bucketing/grouping defects that depend on arrival order, boundaries, type mixes, multi-table streams and flush timing. It does not establish absence.",
        "design_ref": "DESIGN.md section 4 C01",
        "level_note": "Trusts the reference aggregator (written from the documentation, sharing only hdrhistogram with zenodb), the verif hooks' ingestion barrier, and bytemap.AsMap for decoding result keys. Excludes the listed findings' input classes by construction.",
        "technique": "property-based testing (rapid), reference-model oracle",
    },
    "C09": {
        "level_text": "Exploration: tens of thousands of generated row sets x ORDER BY key lists x LIMIT/OFFSET per run at the operator level, plus generated datasets through DB.Query, each decided by a validity predicate (sub-multiset, exact count, sortedness under an independent comparator, positional key-equivalence with a reference sort). Catches comparator and slicing defects for any key-list shape; does not establish absence.",
        "design_ref": "DESIGN.md section 4 C09",
        "level_note": "Trusts the reference comparator (nil first, natural order per type, DESC reverses) and bytemap for building/decoding keys.",
        "technique": "property-based testing (rapid), validity-predicate oracle",
    },
    "C05": {
        "level_text": "Exploration with an exhaustive sub-domain: hundreds of thousands of generated expression trees / update multisets / splits and series pairs per run against a denotational model, plus complete enumeration of a bounded window of series alignments and truncation bounds for Merge and Truncate. Pure functions, so every case is exact and replayable; does not establish absence outside the enumerated window.",
        "design_ref": "DESIGN.md section 4 C05",
        "level_note": "Trusts the denotational evaluator (h/ref.go EvalEx; shares hdrhistogram with zenodb for PERCENTILE) and the translation from the case's expression AST to expr constructors.",
        "technique": "property-based testing (rapid) + bounded exhaustive enumeration, model oracle",
    },
    "C03": {
        "level_text": "Exploration with a metamorphic oracle: hundreds to thousands of generated (schema, points, schedule pair, queries) cases per run; no reference values are needed, so every expression and query shape the grammar produces is covered. Finds flush/merge/restart defects that need a particular split of a key's periods between file and memory. Does not establish absence; timer-driven flush instants are not owned by the harness (they only add schedules).",
        "design_ref": "DESIGN.md section 4 C03",
        "level_note": "Trusts the ingestion barrier (verif hooks) and the clock alignment hook; compares a database with itself under two schedules, so a defect that affects every schedule alike is C01's to find.",
        "technique": "property-based testing (rapid), metamorphic relation between storage schedules",
    },
    "C04": {
        "level_text": "Exploration with a before/after differential: generated datasets, storage splits and (Q, probe) query pairs; any write through a query shows up as a changed probe result, immediately or after the next flush. Does not establish absence.",
        "design_ref": "DESIGN.md section 4 C04",
        "level_note": "Trusts that the harness is the only writer and the ingestion barrier; the probe set (SELECT * of every table plus a generated query) decides what 'stored data' is observable.",
        "technique": "property-based testing (rapid), before/after differential oracle",
    },
    "C06": {
        "level_text": "Exploration: generated datasets, storage splits and grouped queries decided by a raw-point reference aggregator (re-bucketing at the query anchor), hundreds to thousands of cases per run. Finds loss/overlap/off-by-one-bucket and average-of-averages defects that depend on the arithmetic relation of timestamps, period and clock.",
        "design_ref": "DESIGN.md section 4 C06",
        "level_note": "Trusts the reference aggregator and window arithmetic (h/ref.go, h/refquery.go), the ingestion barrier and the clock hook. No stride/crosstab here (C03/C04/C10/C11 cover them differentially).",
        "technique": "property-based testing (rapid), reference-model oracle",
    },
    "C07": {
        "level_text": "Exploration: as C06 with generated time ranges; the oracle is a must-include / may-include period set derived from the reference, so only window-edge behaviour the statement leaves open is tolerated.",
        "design_ref": "DESIGN.md section 4 C07",
        "level_note": "As C06; additionally trusts the statement's reading that a period straddling an unaligned bound may be included or not.",
        "technique": "property-based testing (rapid), reference-model oracle with must/may sets",
    },
    "C08": {
        "level_text": "Exploration: generated datasets and predicates, each clause decided by the relation that defines it in the statement (second database with pre-filtered points, own HAVING evaluator over the HAVING-free rows, literal-list rewrite of the IN-subquery, reference aggregation of the materialised FROM-subquery). A wrong SQL-to-expression translation is caught rather than mirrored because the harness evaluates predicates itself.",
        "design_ref": "DESIGN.md section 4 C08",
        "level_note": "Trusts the harness's predicate and HAVING evaluators (h/model.go Pred.Eval, checks/c08_test.go evalHaving) on the type-consistent sub-domain, and the ingestion barrier / clock hooks.",
        "technique": "property-based testing (rapid), differential + own-evaluator oracle",
    },
    "C11": {
        "level_text": "Translation validation per generated query and partitioning: the cluster plan and the local plan are both executed (real planner, real fan-out code, real tables) and their rows compared. Each run validates hundreds to thousands of (program, split) pairs; it validates the translation for the programs generated, not the planner in general.",
        "design_ref": "DESIGN.md section 4 C11",
        "level_note": "Trusts the harness's follower-equivalent query handler (h/cluster_lite.go, a copy of what DB.queryForRemote does) and the standalone database as the meaning of the local plan (C01/C06 check that against the reference).",
        "technique": "property-based testing (rapid) driving translation validation (cluster plan vs local plan)",
    },
    "C10": {
        "level_text": "Exploration with a differential oracle: generated datasets, partitionings, cluster shapes and queries; the cluster (real replication, routing, follower-side partition re-check, cluster planner and fan-out) is compared with a standalone database, plus exactly-once accounting per partition. Does not establish absence; network transport is C20's.",
        "design_ref": "DESIGN.md section 4 C10",
        "level_note": "Trusts the in-process links (h/cluster.go implements the follow contract of server.followSource), the quiescence criteria built on the verif hooks, and the standalone database as oracle (itself checked by C01/C06).",
        "technique": "property-based testing (rapid), differential oracle against a standalone database",
    },
    "C20": {
        "level_text": "Exploration: round-trip plus behavioural-equality law over generated expression trees and messages (tens of thousands per run), and a differential between RPC-answered and embedded queries over generated datasets on a real loopback gRPC server. The follower-answers-for-leader path over RPC is exercised by the C12 RPC tier when built; in-process remote handlers are C10's.",
        "design_ref": "DESIGN.md section 4 C20",
        "level_note": "Trusts the denotational evaluator for the value check and the embedded query as the oracle for the RPC one.",
        "technique": "property-based testing (rapid), round-trip + behavioural equality, differential RPC vs embedded",
    },
    "C16": {
        "level_text": "Exploration / fuzzing: tens of thousands of grammar-aware mutated statements per quick run (hundreds of thousands plus a coverage-guided native fuzzing campaign in the thorough tier) against parse+plan on a standalone database and a cluster leader, and hundreds of hostile payload histories against a standalone database and an in-process cluster with a liveness-and-content oracle. A robustness claim over all inputs can only be sampled; found panics are fixed or listed and excluded so the search continues.",
        "design_ref": "DESIGN.md section 4 C16",
        "level_note": "Trusts recover() in the harness to observe panics, the ingestion barriers for the stall verdict (twice, fresh databases), and the reference of what a valid point must produce. The unterminated-back-quote hang of the dependency parser is probed in a memory-capped child process.",
        "technique": "grammar-aware mutation PBT (rapid) + native coverage-guided fuzzing; crash/stall oracle + content oracle",
    },
    "C19": {
        "level_text": "Exhaustive enumeration of the credential x endpoint x configuration lattice (a finite space, enumerated completely on every run) plus generated near-miss credentials, against the real RPC servers and web handlers on loopback. The lattice part is complete for the listed credential classes; near-miss generation samples the neighbourhood of valid credentials.",
        "design_ref": "DESIGN.md section 4 C19",
        "level_note": "Trusts the GitHub stub (http.DefaultTransport replacement) and gorilla/securecookie for crafting cookies with known keys; TLS and the OAuth code exchange are outside the statement.",
        "technique": "exhaustive lattice enumeration + property-based near-miss generation (rapid), access-control truth table oracle",
    },
}
NOT_APPLICABLE = []

TEXTS["C18"] = {
    "level_text": "Exploration: (a) hundreds to thousands of generated cases in which the harness pauses a streaming scan inside its row callback and has generated points processed (and flushed) during the pause, decided by a before/after differential plus the reference aggregation of the prefix; deterministic and replayable because the callback places the inserts. (b) generated concurrent inserter/flusher/query-loop runs over a stream whose prefixes have unique images, each observed result decided by a schedule-independent prefix oracle. Does not establish absence; (b) samples interleavings.",
    "design_ref": "DESIGN.md section 4 C18",
    "level_note": "Trusts the ingestion barrier (verif hooks) used inside the callback and the reference aggregator. Only SELECT * [WHERE dims] plans stream rows while scanning; grouped plans buffer the whole scan, so for them only part (b) observes concurrent ingest.",
    "technique": "property-based testing (rapid): schedule placed by the row callback with a differential/reference oracle, plus concurrent runs with a prefix-image invariant",
}

TEXTS["C17"] = {
    "level_text": "Exploration with a solo-vs-concurrent differential: generated datasets and sets of 2-8 queries (early-terminating LIMIT scans, field subsets in generated orders, full-grammar queries, disk-only and memstore-inclusive, expired and generous deadlines) issued with generated arrival offsets around a coalesce interval chosen by the case; each query's concurrent outcome must equal its own solo outcome. Finds cross-talk through the shared scan (column mapping, early termination, errors, deadlines, store selection). Does not establish absence; which queries end up in one shared scan is sampled, measured and reported (label histogram).",
    "design_ref": "DESIGN.md section 4 C17",
    "level_note": "Trusts that the harness is the only writer between the solo and the concurrent runs (checked by a second solo run). Disk-only queries are generated only when nothing or everything is on disk, because zenodb's flush timer (re-armed to 10x the last flush duration) otherwise moves data on its own between the runs.",
    "technique": "property-based testing (rapid), differential oracle: concurrent (coalesced) execution vs solo execution of the same query",
}

TEXTS["C13"] = {
    "level_text": "Fault enumeration by generated fault descriptors: per generated dataset and query the harness injects one fault configuration - an expired deadline, a deadline crossed inside a chosen row callback, an always-exceeded memory cap, per-partition behaviours (no handler, error before/after k rows, blocking past the timeout, slow) on a 1-4 partition cluster, caller deadlines, and for the HTTP API response-size limits, QueryTimeout and cache replays - and compares with the fault-free run. Decides the implication 'incomplete => told' (error, missing-partition statistics, HTTP status). Fault kinds are enumerated by the generator and counted in the evidence; it does not enumerate every instant at which a deadline can fall.",
    "design_ref": "DESIGN.md section 4 C13",
    "level_note": "Trusts the fault-free run as ground truth (its correctness is C01/C10/C11's subject), the harness partition handlers (FollowerHandler mirrors DB.queryForRemote), and httptest for the web part. The oracle is one-directional on purpose: an error or a 5xx on a complete result is not a C13 violation.",
    "technique": "property-based testing (rapid) with injected faults (deadlines, failing/blocking partition handlers, size limits), differential oracle against the fault-free run",
}

TEXTS["C14"] = {
    "level_text": "Exploration by stateful model-based testing: generated histories of boundary-aimed inserts, clock advances, data-carrying and empty flushes and flush bursts on one table, checked after every flush and at generated check points against a model of the retention rules (never-stored / must-be-present / may-be-present / must-be-absent per period, exact aggregate for periods inside the window, reference aggregation for grouped and time-ranged queries). Finds off-by-one-period errors at the moving boundary, dropped in-window data after merges with expired file rows, resurrection and missed truncation. Does not establish absence.",
    "design_ref": "DESIGN.md section 4 C14",
    "level_note": "Trusts the model's reading of the statement (spelled out in the rule), the ingestion barrier, and that one table processes its stream in insertion order (so the clock at processing time is known). Expired-but-not-yet-truncated periods are only required to hold no more than was stored.",
    "technique": "stateful model-based property testing (rapid): generated histories against a retention model with must/may/must-not period sets",
}

TEXTS["C15"] = {
    "level_text": "Exploration by model-based histories: generated interleavings of inserts, flushes, clean restarts (with and without a changed definition), live alterations (field deletions, insertions incl. wide PERCENTILE columns, permutations, WHERE replacement) and checks, decided by a per-field-identity reference aggregator. Finds positional column-mapping errors between file header, memstore layout and requested fields, raw pass-through under a changed header, and retroactive application of a new WHERE. Does not establish absence.",
    "design_ref": "DESIGN.md section 4 C15",
    "level_note": "Trusts the reference aggregator and the ingestion / field-update barriers of the verif hooks. Histories stay inside one retention window.",
    "technique": "stateful model-based property testing (rapid): alteration histories against a per-field-identity reference aggregator",
}

TEXTS["C02"] = {
    "level_text": "Fault enumeration over crash points: the database runs in a child process that is killed (SIGKILL) at a named instrumented step of the insert / memstore / flush / offset-file / old-file-removal protocol at a chosen occurrence, or asynchronously after a chosen acknowledgement, over 1-3 rounds on one directory; TestC02Enum profiles each generated script and then kills it once at every (crash point, occurrence) it reached (bounded per script). After the final restart every table must equal the reference aggregation of the acknowledged inserts (+ any subset of in-flight ones). Generated pauses (VERIF_PAUSE_AT) place flushes inside multi-step inserts. Coverage per crash point is reported in the evidence labels; it does not cover power loss or un-instrumented instants other than by the asynchronous kills.",
    "design_ref": "DESIGN.md section 4 C02",
    "level_note": "Trusts the TRY/ACK protocol on the child's stdout, the verif crash points (which SIGKILL the process without running deferred code) and the reference aggregator with the pinned 2n-1 array rule. The child closes only a caught-up database because DB.Close can block while entries are still being handed to the row store (recorded in DESIGN.md as outside the listed properties).",
    "technique": "fault injection driven by property-based generation (rapid): generated insert/flush scripts x enumerated crash points / random SIGKILLs in a child process, reference-model oracle after restart",
}

TEXTS["C12"] = {
    "level_text": "Fault enumeration by generated fault sequences: histories interleaving inserts through 1-2 leaders with follower stops/starts/restarts, restarts from a stale directory image, leader restarts, link cuts and restores, and slow followers (bounded number of faults per history) on an in-process cluster with real WAL replication; after healing, per-partition exactly-once accounting against a standalone database, equality of redundant followers and leader-query equivalence decide the case. Fault kinds and their combinations with later inserts are counted in the evidence labels. It does not enumerate every position of a fault inside the leader's dispatch pipeline (positions are sampled by the history), and the gRPC transport is replaced by harness links.",
    "design_ref": "DESIGN.md section 4 C12",
    "level_note": "Trusts the harness link (re-follow from the last delivered offset, one outstanding Follow call per leader at a time, stale incarnations answer with an error), the cluster quiescence criterion built on the leader/follower progress hooks, and the standalone database as oracle (C01's subject).",
    "technique": "stateful property-based testing (rapid) with injected faults (restarts, stale directory images, link cuts, leader restarts), differential + accounting oracle against a standalone database",
}

TEXTS["C20"]["level_text"] = TEXTS["C20"]["level_text"] + " A third part runs generated queries on a partitioned cluster twice - followers answering in-process and the same followers answering over the real gRPC path - and requires equal rows, errors and row order."
