TEXTS = {
    "C01": {
        "level_text": "Exploration by generated-input search: thousands of generated (schema, point sequence, flush interleaving) cases per run, each decided by an independent reference aggregator over the raw points; finds aggregation/bucketing/grouping defects that depend on arrival order, boundaries, type mixes, multi-table streams and flush timing. It does not establish absence.",
        "design_ref": "DESIGN.md section 4 C01",
        "level_note": "Trusts the reference aggregator (written from the documentation, sharing only hdrhistogram with zenodb), the verif hooks' ingestion barrier, and bytemap.AsMap for decoding result keys. Excludes the listed findings' input classes by construction.",
        "technique": "property-based testing (rapid), reference-model oracle",
    },
}
NOT_APPLICABLE = []
